"""cli -- python -m jv.cli <property> <quick|thorough> | replay <file> | selftest"""
import importlib
import os
import sys


def main(argv):
    if len(argv) < 2:
        print(__doc__)
        return 2
    import j1939
    repo = os.environ.get('JV_REPO', '/repo')
    if not os.path.abspath(j1939.__file__).startswith(os.path.abspath(repo) + os.sep):
        print('INCONCLUSIVE j1939 imported from %s, not from %s' % (j1939.__file__, repo))
        return 2
    from . import runner
    if argv[1] == 'replay':
        return runner.replay_file(argv[2])
    if argv[1] == 'selftest':
        from . import selftest
        return selftest.main()
    prop = argv[1].upper()
    tier = argv[2] if len(argv) > 2 else os.environ.get('VERIF_TIER', 'quick')
    mod = importlib.import_module('jv.props.' + prop.lower())
    from . import selftest
    st = selftest.quick()
    if st:
        print('INCONCLUSIVE engine self-test failed: %s' % st)
        return 2
    jobs = mod.jobs(tier)
    meta = mod.meta(tier) if hasattr(mod, 'meta') else {}
    return runner.run_check(prop, tier, jobs, meta)


if __name__ == '__main__':
    sys.exit(main(sys.argv))

"""evidence -- /verif/evidence/<id>.json writer (validated against EVIDENCE.schema.json)."""
import json
import os

from .runner import VERIF, repo_state

SCHEMA = '/root/.vp/EVIDENCE.schema.json'

GLOBAL_ASSUMPTIONS = [
    "CPython 3.12 executes the real /repo/j1939 code objects; ints are replaced by z3 bit-vector proxies (interval-checked, no wrap) and time by exact rationals / z3 Reals (IEEE rounding of time arithmetic is outside the claim)",
    "stub: time.time() = virtual clock, constant while one handler / job pass runs",
    "stub: threading.Thread -> the scheduler calls the captured target(); queue.Queue of the ECU -> WakeQueue (get parks by unwinding, wake-up strictly after the deadline by the scheduling latency)",
    "stub: CAN bus = broadcast medium, total order of frames, FIFO per receiver; python-can back ends are not modelled (send_message= hook and notify() are the interface)",
    "handlers are atomic (no pre-emption inside a reception handler or job pass) unless the check says otherwise",
    "logging disabled (formatting is not the subject of any property)",
    "z3 answers are trusted; 'unknown' or any engine limit makes the check exit 2, never 0",
]


def write(prop, tier, seed, results, meta, wall, n_viol, known_hits, inconclusive):
    head, diffhash = repo_state()
    paths = sum(r.get('paths', 0) for r in results)
    aborted = sum(r.get('aborted', 0) for r in results)
    decisions = sum(r.get('decisions', 0) for r in results)
    sat = sum(r.get('sat', 0) for r in results)
    unsat = sum(r.get('unsat', 0) for r in results)
    unknown = sum(r.get('unknown', 0) for r in results)
    claims = {}
    for r in results:
        for k, c in (r.get('claims') or {}).items():
            t = claims.setdefault(k, {'reached': 0, 'discharged_unsat': 0, 'trivially_true': 0, 'violated': 0})
            for kk in t:
                t[kk] += c[kk]
    functions = sorted(set(f for r in results for f in r.get('functions', [])))
    samples = []
    for r in results:
        for s in r.get('samples', [])[:1]:
            if len(samples) < 6:
                samples.append({'job': r['job']['label'], 'path': s})
    if not samples:
        samples = [{'job': r['job']['label'], 'status': r['status']} for r in results[:3]]
    exhaustive = all(r['status'] == 'ok' and not r['job'].get('partial_ok') for r in results)
    jobs = []
    for r in results:
        jobs.append({'job': r['job']['label'], 'status': r['status'], 'paths': r.get('paths', 0),
                     'pruned_or_aborted': r.get('aborted', 0), 'queries': r.get('sat', 0) + r.get('unsat', 0),
                     'solver_s': r.get('solver_time', 0), 'wall_s': r.get('wall', 0),
                     'witness_reached': r.get('witness', 0), 'validated': r.get('validated', 0),
                     'violations': len(r.get('violations', []))})
    notes = sorted(set(n for r in results for n in r.get('notes', [])))
    ev = {
        'property_id': prop,
        'tier': tier,
        'seed': seed,
        'level': 'model_checking',
        'coverage': {
            'states': max(paths, 0),
            'transitions': max(decisions + sat + unsat, 0),
            'traces_validated_against_impl': sum(r.get('validated', 0) for r in results),
            'samples': samples,
            'exhaustive': bool(exhaustive),
            'explanation': 'states = execution paths of the real code closed by the solver (each stands for all values of the symbolic inputs that take it); transitions = solver queries discharged (branch feasibility + claims)',
            'technique': meta.get('technique', 'bounded symbolic execution of the real code (proxy values over z3), claims discharged as pc /\\ not(claim) unsat'),
            'functions_encoded': functions,
            'bounds': meta.get('bounds', []),
            'outside_bounds': meta.get('outside', []),
            'queries': {'sat': sat, 'unsat': unsat, 'unknown': unknown, 'answered_from_cache_of_identical_queries': sum(r.get('cached', 0) for r in results)},
            'claims_rechecked_with_cvc5': sum(r.get('cross', 0) for r in results),
            'solver_time_s': round(sum(r.get('solver_time', 0) for r in results), 2),
            'paths_pruned_or_aborted': aborted,
            'claims': claims,
            'witness_reached': sum(r.get('witness', 0) for r in results),
            'jobs': jobs,
            'known_findings_hit': {k: v[1] for k, v in known_hits.items()},
            'inconclusive': inconclusive[:20],
            'observations': notes,
            'repo_head': head,
            'repo_worktree_diff': diffhash,
        },
        'assumptions': GLOBAL_ASSUMPTIONS + list(meta.get('assumptions', [])),
        'wall_s': round(wall, 2),
        'violations': n_viol,
    }
    evdir = os.environ.get('JV_EVIDENCE_DIR') or os.path.join(VERIF, 'evidence')   # redirected by tools/seed_run.sh only
    os.makedirs(evdir, exist_ok=True)
    path = os.path.join(evdir, prop + '.json')
    try:
        import jsonschema
        with open(SCHEMA) as f:
            jsonschema.validate(ev, json.load(f))
    except (ImportError, FileNotFoundError):
        pass
    except Exception as e:  # schema violation: still write, but say so
        print('WARNING evidence does not validate: %s' % str(e).splitlines()[0])
    with open(path, 'w') as f:
        json.dump(ev, f, indent=1, default=str)
    return path

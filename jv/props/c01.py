"""C01 -- J1939-21 transport delivers every accepted message intact, exactly once."""
from fractions import Fraction

from ..runner import Job
from ..symx import sym_eq_seq, sym_and, sym_or, sym_not, T
from .. import world as W
from .common import Stack, sym_payload, log_digest, same_pgn, PROTOCOL_PF, PROTOCOL_PF_FD

A, B, C = 0x10, 0x20, 0x30


def _pgn_inputs(ex, tag, pdu2, dll='j1939-21'):
    dp = ex.fresh_int(tag + 'dp', 0, 1)
    prio = ex.fresh_int(tag + 'prio', 0, 7)
    if pdu2:
        pf = ex.fresh_int(tag + 'pf', 240, 255)
        ps = ex.fresh_int(tag + 'ge', 0, 255)
    else:
        pf = ex.fresh_int(tag + 'pf', 0, 239)
        for p in (PROTOCOL_PF if dll == 'j1939-21' else PROTOCOL_PF_FD):
            ex.assume(pf != p)
        ps = None
    return dp, pf, ps, prio


class Msg:
    def __init__(self, ex, tag, src, dst, L, kind, dll='j1939-21'):
        """kind: 'p2p' (PDU1 to dst), 'bam255' (PDU1 to global), 'pdu2'"""
        self.src, self.dst, self.L, self.kind = src, dst, L, kind
        self.pdu2 = kind == 'pdu2'
        self.dll = dll
        self.dp, self.pf, self.ps, self.prio = _pgn_inputs(ex, tag, self.pdu2, dll)
        if not self.pdu2:
            self.ps = dst.addr if kind == 'p2p' else 255
        self.payload = sym_payload(ex, tag + 'b', L)
        self.broadcast = kind != 'p2p'
        self.connection = (kind == 'p2p' and L > (8 if dll == 'j1939-21' else 60))

    def send(self):
        return self.src.ca.send_pgn(self.dp, self.pf, self.ps, self.prio, list(self.payload))


def check_listener(ex, who, rx, stacks_by_addr, msgs, tag, dll='j1939-21'):
    """rx: deliveries at one listener of stack `who` (CA listener or ECU-level listener)"""
    expected = {}   # sa -> [msgs that must arrive from sa]
    acks = {}       # sa -> number of tolerated EOM-ack reports from sa
    for m in msgs:
        if m.src is who:
            if m.connection:
                acks[m.dst.addr] = acks.get(m.dst.addr, 0) + 1
            continue
        if m.broadcast or m.dst is who:
            expected.setdefault(m.src.addr, []).append(m)
    by_sa = {}
    for d in rx:
        sa = d['sa']
        by_sa.setdefault(int(sa), []).append(d)
    ok_all = True
    for sa, ds in by_sa.items():
        exp = list(expected.get(sa, []))
        nack = acks.get(sa, 0)
        for d in ds:
            hit = None
            for m in exp:
                if len(d['data']) == m.L:
                    hit = m
                    break
            if hit is not None:
                exp.remove(hit)
                ex.claim(tag + '.pgn', same_pgn(d['pgn'], hit.dp, hit.pf, hit.ps, hit.pdu2))
                ex.claim(tag + '.payload', sym_eq_seq(d['data'], hit.payload))
                continue
            is_ack = (len(d['data']) == 8 and bool(d['data'][0] == 19)) if dll == 'j1939-21' else \
                (len(d['data']) == 12 and bool((d['data'][0] & 0xF) == 3))
            if nack > 0 and is_ack:
                nack -= 1      # the end-of-message acknowledgement reported to the originator
                continue
            ex.claim(tag + '.no_other_delivery', False, {'listener': who.name, 'sa': sa, 'len': len(d['data'])})
            ok_all = False
        if exp:
            ex.claim(tag + '.delivered', False, {'listener': who.name, 'missing_from': sa, 'len': exp[0].L})
            ok_all = False
    for sa, exp in expected.items():
        if sa not in by_sa and exp:
            ex.claim(tag + '.delivered', False, {'listener': who.name, 'missing_from': sa, 'len': exp[0].L})
            ok_all = False
    if ok_all:
        ex.claim(tag + '.exactly_once', True)
    return ok_all


def h_xfer(ex, L, kind='p2p', shape='single', L2=0, kind2='p2p', reent=None, windows='sym', bystander=True, dll='j1939-21', addrs=None, bam_interval=None):
    w = W.World(ex, mode='interleave')
    fd = dll != 'j1939-21'
    kw = {'minimum_tp_bam_dt_interval': Fraction(bam_interval)} if bam_interval is not None else {}
    seg = 60 if fd else 7
    if windows == 'sym':
        wa = ex.fresh_int('win_a', 1, 255)
        wb = ex.fresh_int('win_b', 1, 255)
    else:
        wa, wb = windows
    npk = (L + seg - 1) // seg + (L2 + seg - 1) // seg
    if reent == 'all':
        w.reentrant = 'all'
    elif reent == 'one':
        w.reentrant = ex.fresh_int('reentrant_frame', 0, 2 * npk + 6)
    a_, b_, c_ = addrs if addrs else (A, B, C)
    ecu0 = 0 not in (a_, b_, c_)
    sa = Stack(w, 'A', a_, dll=dll, max_cmdt_packets=wa, **kw)
    sb = Stack(w, 'B', b_, dll=dll, max_cmdt_packets=wb, ecu0=ecu0, **kw)
    stacks = [sa, sb]
    if bystander:
        sc = Stack(w, 'C', c_, dll=dll, ecu_listener=True, max_cmdt_packets=1)
        stacks.append(sc)
    by_addr = {s.addr: s for s in stacks}
    w.run(until=T('1/100'))
    msgs = [Msg(ex, 'm1', sa, sb, L, kind, dll)]
    if shape == 'twoway':
        msgs.append(Msg(ex, 'm2', sb, sa, L2, kind2, dll))
    elif shape == 'fanout':
        msgs.append(Msg(ex, 'm2', sa, sb, L2, kind2, dll))   # kind2 must be a broadcast kind
    for m in msgs:
        r = m.send()
        ex.claim('accepted', r is True)
    horizon = T(2) + (T('3/50') if bam_interval is None else Fraction(bam_interval) + Fraction(1, 100)) * npk
    w.run(until=w.now + horizon)
    for s in stacks:
        check_listener(ex, s, s.rx, by_addr, msgs, 'ca', dll)
    if ecu0:
        # the receiving stack also has an ECU-level listener bound to address 0: it gets the broadcasts only
        check_listener(ex, sb, sb.rx_ecu0, by_addr, [m for m in msgs if m.broadcast], 'ecu0', dll)
    if bystander:
        # an unfiltered ECU-level listener receives the broadcasts only
        check_listener(ex, sc, sc.rx_ecu, by_addr, [m for m in msgs if m.broadcast], 'ecu', dll)
    ex.claim('job_threads_alive', all(s.alive() for s in stacks))
    ex.claim('no_notify_exception', all(not s.node.notify_errors for s in stacks))
    nframes = len(w.log)
    ex.observe('bus', log_digest(w))
    ex.observe('rx', [[s.name, [[d['pgn'], d['sa'], d['data']] for d in s.rx]] for s in stacks])
    # idle again: a follow-up on every pair is accepted and delivered intact
    for s in stacks:
        del s.rx[:]
        del s.rx_ecu[:]
    w.branching = False   # the follow-up probes the state left behind; one canonical schedule
    fmsgs = []
    for i, m in enumerate(msgs):
        f = Msg.__new__(Msg)
        f.src, f.dst, f.kind, f.pdu2 = m.src, m.dst, m.kind, m.pdu2
        f.L = (10 if m.L != 10 else 11) if not fd else (70 if m.L != 70 else 71)
        f.dll = dll
        f.dp, f.pf, f.ps, f.prio = m.dp, m.pf, m.ps, 6
        f.payload = [(37 * j + i + 1) % 256 for j in range(f.L)]
        f.broadcast, f.connection = m.broadcast, (m.kind == 'p2p')
        fmsgs.append(f)
        ex.claim('followup.accepted', f.send() is True)
    w.run(until=w.now + T(3) + (Fraction(bam_interval) * 3 if bam_interval is not None else 0))
    for s in stacks:
        check_listener(ex, s, s.rx, by_addr, fmsgs, 'followup', dll)
    ex.claim('followup.job_threads_alive', all(s.alive() for s in stacks))
    ex.observe('bus2', log_digest(w)[nframes:])
    ex.witness()


def h_multi(ex, transfers, windows=(1, 2, 3, 1), dll='j1939-21', explore=True):
    """2-4 stacks, any mix of simultaneous transfers on distinct (SA, DA) pairs: transfers = [[src, dst|'G', L], ...]
    over stacks A..D; all submitted at once; all interleavings (explore) or the canonical schedule"""
    w = W.World(ex, mode='interleave')
    w.branching = bool(explore)
    names = sorted(set([t[0] for t in transfers] + [t[1] for t in transfers if t[1] != 'G']))
    addr = {'A': 0x10, 'B': 0x20, 'C': 0x30, 'D': 0x40}
    st = {nm: Stack(w, nm, addr[nm], dll=dll, max_cmdt_packets=windows['ABCD'.index(nm)]) for nm in names}
    by_addr = {s.addr: s for s in st.values()}
    w.run(until=T('1/100'))
    msgs = []
    for i, (s_, d_, L) in enumerate(transfers):
        kind = 'pdu2' if d_ == 'G' else 'p2p'
        m = Msg(ex, 'm%d' % i, st[s_], st[d_] if d_ != 'G' else st[s_], L, kind, dll)
        msgs.append(m)
    for m in msgs:
        ex.claim('accepted', m.send() is True)
    seg = 7 if dll == 'j1939-21' else 60
    w.run(until=w.now + T(3) + Fraction(6, 100) * sum((m.L + seg - 1) // seg for m in msgs))
    for s in st.values():
        check_listener(ex, s, s.rx, by_addr, msgs, 'ca', dll)
    ex.claim('job_threads_alive', all(s.alive() for s in st.values()))
    ex.claim('no_notify_exception', all(not s.node.notify_errors for s in st.values()))
    ex.observe('rx', [[s.name, [[d['pgn'], d['sa'], d['data']] for d in s.rx]] for s in st.values()])
    ex.witness()


QUICK_L = [0, 1, 7, 8, 9, 13, 14, 15, 21, 22, 28, 29]


def jobs(tier):
    out = []

    def J(**p):
        wall = p.pop('wall', 120)
        out.append(Job('C01', 'c01:h_xfer', p, W=40, wall=wall, max_paths=40000, validate=2 if tier == 'quick' else 4))

    if tier == 'quick':
        for L in QUICK_L:
            for kind in ('p2p', 'bam255', 'pdu2'):
                J(L=L, kind=kind)
        for L in (9, 15, 22):
            J(L=L, kind='p2p', reent='all')
            J(L=L, kind='p2p', reent='one')
        J(L=15, kind='pdu2', reent='all')
        # sizes above 255 bytes (second size byte, > 36 packets): concrete window classes
        for wins in ((2, 3), (255, 255), (1, 255)):
            J(L=260, kind='p2p', windows=wins, bystander=False)
        J(L=300, kind='pdu2', windows=(1, 1), bystander=False)
        J(L=257, kind='bam255', windows=(1, 1), bystander=False)
        # broadcasts that stay on the bus longer than the receivers' packet timeout T1 = 750 ms
        J(L=126, kind='pdu2', windows=(1, 1))
        J(L=40, kind='pdu2', windows=(1, 1), bam_interval='19/100')
        # other address values, incl. 0 (valid and falsy) and 253
        for ad in ([0, 0x20, 0x30], [0x10, 0, 0x30], [253, 1, 0]):
            for L in (8, 15):
                J(L=L, kind='p2p', addrs=ad)
            J(L=15, kind='pdu2', addrs=ad)
        J(L=15, kind='p2p', shape='twoway', L2=9, kind2='p2p', windows=(2, 1), addrs=[0, 253, 1])
        J(L=15, kind='p2p', shape='twoway', L2=9, kind2='p2p', windows=(1, 2))
        J(L=9, kind='p2p', shape='twoway', L2=15, kind2='p2p', windows=(3, 1))
        J(L=15, kind='p2p', shape='fanout', L2=9, kind2='pdu2', windows=(2, 2))
        J(L=9, kind='p2p', shape='twoway', L2=9, kind2='p2p', reent='all', windows=(1, 1))
        # 3-4 stacks, mixes of simultaneous transfers on distinct pairs (canonical round-robin schedule; all
        # interleavings for two independent pairs)
        for tr in ([['A', 'B', 9], ['C', 'D', 9], ['B', 'A', 15]], [['A', 'B', 15], ['C', 'A', 9], ['B', 'G', 9]],
                   [['A', 'B', 9], ['B', 'C', 16], ['C', 'D', 22], ['D', 'A', 29]], [['A', 'B', 20], ['A', 'C', 20], ['A', 'D', 20], ['A', 'G', 20]],
                   [['B', 'A', 20], ['C', 'A', 21], ['D', 'A', 22]]):
            out.append(Job('C01', 'c01:h_multi', {'transfers': tr, 'explore': False}, W=40, wall=300, validate=1))
        out.append(Job('C01', 'c01:h_multi', {'transfers': [['A', 'B', 9], ['C', 'D', 9]], 'explore': True}, W=40, wall=600, max_paths=100000, validate=1))
        out.append(Job('C01', 'c02:h_staggered', {'dll': 'j1939-21', 'L1': 20, 'L2': 12, 'windows': [1, 1]}, W=40, wall=120, validate=1))
        out.append(Job('C01', 'c02:h_staggered', {'dll': 'j1939-21', 'L1': 30, 'L2': 9, 'windows': [2, 3]}, W=40, wall=120, validate=1))
    else:
        for L in range(0, 121):
            for kind in ('p2p', 'bam255', 'pdu2'):
                J(L=L, kind=kind, wall=600)
        for L in (9, 15, 22, 29, 50):
            for kind in ('p2p', 'pdu2'):
                J(L=L, kind=kind, reent='all', wall=600)
                J(L=L, kind=kind, reent='one', wall=600)
        for L in (1778, 1779, 1784, 1785):
            for wins in ((1, 1), (2, 3), (3, 2), (254, 255), (255, 254), (255, 1)):
                J(L=L, kind='p2p', windows=wins, bystander=False, wall=900)
            J(L=L, kind='pdu2', windows=(1, 1), bystander=False, wall=900)
        for (L, L2) in ((15, 9), (9, 15), (22, 15), (15, 15)):
            J(L=L, kind='p2p', shape='twoway', L2=L2, kind2='p2p', wall=900)
            J(L=L, kind='p2p', shape='fanout', L2=L2, kind2='pdu2', wall=900)
            J(L=L, kind='p2p', shape='twoway', L2=L2, kind2='p2p', reent='all', windows=(2, 1), wall=900)
        J(L=15, kind='p2p', shape='twoway', L2=9, kind2='pdu2', wall=900)
    return out


def meta(tier):
    return {
        'bounds': ['payload lengths: ' + (str(QUICK_L) + ' and 257, 260, 300 with concrete window classes' if tier == 'quick' else '0..120 and 1778,1779,1784,1785'),
                   'payload bytes, priority, data page, PDU format (PDU1 class 0..239 minus protocol PGNs / PDU2 class 240..255 with symbolic group extension): symbolic',
                   'max_cmdt_packets of both stacks symbolic 1..255 (concrete classes for the 255-packet transfers and most concurrent shapes)',
                   'schedules: all interleavings of frame deliveries and job passes (DESIGN 3, reductions 1-3); re-entrant delivery: none / all frames / one frame at a symbolic index',
                   '3 stacks (originator, responder, bystander with CA + unfiltered ECU listener); concurrent shapes: A->B || B->A, A->B || A->global', '3-4 stacks with 3-4 simultaneous transfers on distinct pairs incl. fan-in / fan-out / ring (canonical round-robin schedule; all interleavings for two independent pairs)',
                   'addresses (0x10, 0x20, 0x30); for some shapes also (0, 0x20, 0x30), (0x10, 0, 0x30), (253, 1, 0)'],
        'outside': ['lengths 121..1777 except the listed ones', 'address values other than the listed ones',
                    'mixes of re-entrant and delayed frames beyond one re-entrant frame',
                    'protocol PGNs (request, TP.CM, TP.DT, address claim) as application PGNs',
                    'for three nodes the relative order of frames of different senders at the third node'],
        'assumptions': ['the reported PGN is compared as the whole 18-bit value; a PDU1 PGN has PS = 0 on every transport'],
    }

"""C02 -- J1939-22 (FD) transport delivers every accepted message intact, exactly once; capacity refusal is side-effect free."""
from ..runner import Job
from ..symx import sym_eq_seq, sym_and, T
from .. import world as W
from .common import Stack, sym_payload, log_digest

A, B, C = 0x10, 0x20, 0x30


def h_capacity(ex, L=61, two_dest=True, windows=(1, 1), sym=1):
    """8 destination-specific + 4 broadcast sessions from one stack at once; the 9th / 5th call is refused,
    emits nothing and disturbs nothing"""
    w = W.World(ex, mode='interleave')
    w.branching = False
    sa = Stack(w, 'A', A, dll='j1939-22', max_cmdt_packets=windows[0])
    sb = Stack(w, 'B', B, dll='j1939-22', max_cmdt_packets=windows[1])
    sc = Stack(w, 'C', C, dll='j1939-22', max_cmdt_packets=windows[1])
    w.run(until=T('1/100'))
    msgs = []
    for j in range(8):
        p = sym_payload(ex, 'r%d_' % j, L + j) if j < sym else [(j * 29 + t) % 256 for t in range(L + j)]
        d = sc if (two_dest and j % 2) else sb
        r = sa.ca.send_pgn(0, 0xD0 + j, d.addr, 6, list(p))
        ex.claim('capacity.rts_cts_accepted', r is True, {'n': j + 1})
        msgs.append((d, p, 'p2p'))
    for j in range(4):
        p = sym_payload(ex, 'b%d_' % j, L + 20 + j) if j < sym else [(100 + j * 31 + t) % 256 for t in range(L + 20 + j)]
        r = sa.ca.send_pgn(0, 0xFE, 0x40 + j, 6, list(p))
        ex.claim('capacity.bam_accepted', r is True, {'n': j + 1})
        msgs.append((None, p, 'bam'))
    n1 = len(w.log)
    r = sa.ca.send_pgn(0, 0xDA, B, 6, [1] * (L + 30))
    ex.claim('capacity.ninth_rts_cts_refused', r is False)
    ex.claim('capacity.refusal_emits_nothing', len(w.log) == n1, {'frames': len(w.log) - n1})
    r = sa.ca.send_pgn(0, 0xFE, 0x50, 6, [2] * (L + 31))
    ex.claim('capacity.fifth_bam_refused', r is False)
    ex.claim('capacity.refusal_emits_nothing', len(w.log) == n1, {'frames': len(w.log) - n1})
    w.run(until=w.now + T(6))
    for (d, p, kind) in msgs:
        for t in ([d] if kind == 'p2p' else [sb, sc]):
            got = [m for m in t.rx if len(m['data']) == len(p)]
            ok = len(got) == 1
            ex.claim('capacity.in_flight_delivered_once', ok, {'kind': kind, 'length': len(p), 'got': len(got), 'at': t.name})
            if ok:
                ex.claim('capacity.in_flight_intact', sym_and(got[0]['sa'] == A, sym_eq_seq(got[0]['data'], p)))
    for t in (sb, sc):
        ex.claim('capacity.nothing_else_delivered', len(t.rx) == len([1 for (d, p, k) in msgs if k == 'bam' or d is t]), {'at': t.name, 'got': len(t.rx)})
    ex.claim('job_threads_alive', sa.alive() and sb.alive() and sc.alive())
    ex.observe('frames', len(w.log))
    ex.witness()


def h_overlap(ex, L1=400, L2=70, L3=130, windows=(1, 1)):
    """traffic in both directions at once and several sessions on one pair: A->B (long) || B->A (short); as soon as
    A has received B's message A submits a second message to B.  All three are delivered exactly once, intact."""
    w = W.World(ex, mode='interleave')
    w.branching = False
    sa = Stack(w, 'A', A, dll='j1939-22', max_cmdt_packets=windows[0])
    sb = Stack(w, 'B', B, dll='j1939-22', max_cmdt_packets=windows[1])
    w.run(until=T('1/100'))
    p1 = sym_payload(ex, 'p1_', L1)
    p2 = sym_payload(ex, 'p2_', L2)
    p3 = sym_payload(ex, 'p3_', L3)
    ex.claim('overlap.accepted', sa.ca.send_pgn(0, 0xD0, B, 6, list(p1)) is True)
    ex.claim('overlap.accepted', sb.ca.send_pgn(0, 0xD1, A, 6, list(p2)) is True)
    w.run(stop=lambda: any(len(m['data']) == L2 for m in sa.rx), until=w.now + T(3))
    first_in_flight = not any(len(m['data']) == L1 for m in sb.rx)
    r3 = sa.ca.send_pgn(0, 0xD2, B, 6, list(p3))
    ex.claim('overlap.second_message_accepted', r3 is True, {'first_in_flight': first_in_flight})
    w.run(until=w.now + T(8))
    for who, L, p, src in ((sb, L1, p1, A), (sa, L2, p2, B), (sb, L3, p3, A)):
        got = [m for m in who.rx if len(m['data']) == L]
        ok = len(got) == 1
        ex.claim('overlap.delivered_once', ok, {'length': L, 'got': len(got), 'first_in_flight': first_in_flight})
        if ok:
            ex.claim('overlap.intact', sym_and(got[0]['sa'] == src, sym_eq_seq(got[0]['data'], p)), {'length': L})
    ex.claim('job_threads_alive', sa.alive() and sb.alive(), {'a_spin': sa.node.spin, 'a_dead': repr(sa.node.dead)})
    ex.witness()


def h_staggered(ex, dll='j1939-22', L1=130, L2=70, windows=(1, 1)):
    """a second message for the same destination is submitted right after the k-th bus frame of the first transfer
    (every k: enumerated schedule choice).  If it is accepted it is delivered exactly once, intact, and so is the first;
    if it is refused (J1939-21: pair busy) the call emits nothing and the first transfer is not disturbed."""
    w = W.World(ex, mode='interleave')
    w.branching = False
    sa = Stack(w, 'A', A, dll=dll, max_cmdt_packets=windows[0])
    sb = Stack(w, 'B', B, dll=dll, max_cmdt_packets=windows[1])
    w.run(until=T('1/100'))
    p1 = sym_payload(ex, 'p1_', L1)
    p2 = sym_payload(ex, 'p2_', L2)
    st = {'done': False, 'ret': None, 'frames_before': None, 'frames_after': None, 'at': None}

    def submit():
        st['frames_before'] = len(w.log)
        st['ret'] = sa.ca.send_pgn(0, 0xD2, B, 6, list(p2))
        st['frames_after'] = len(w.log)

    def on_frame(f):
        if st['done']:
            return
        if ex.choose('submit_after_frame%d' % f['i'], 2) == 1:
            st['done'] = True
            st['at'] = f['i']
            w.app_now.append(submit)
    w.frame_hooks.append(on_frame)
    ex.claim('staggered.first_accepted', sa.ca.send_pgn(0, 0xD0, B, 6, list(p1)) is True)
    w.run(until=w.now + T(6))
    if not st['done']:
        st['done'] = True
        submit()
        w.run(until=w.now + T(6))
    info = {'submitted_after_frame': st['at'], 'second_returned': st['ret'], 'dll': dll}
    first = [m for m in sb.rx if len(m['data']) == L1]
    ex.claim('staggered.first_delivered_once', len(first) == 1, dict(info, got=len(first)))
    if len(first) == 1:
        ex.claim('staggered.first_intact', sym_eq_seq(first[0]['data'], p1), info)
    second = [m for m in sb.rx if len(m['data']) == L2]
    if st['ret'] is True:
        ex.claim('staggered.second_delivered_once', len(second) == 1, dict(info, got=len(second)))
        if len(second) == 1:
            ex.claim('staggered.second_intact', sym_eq_seq(second[0]['data'], p2), info)
    else:
        ex.claim('staggered.refusal_is_false', st['ret'] is False, info)
        ex.claim('staggered.refusal_emits_nothing', st['frames_after'] == st['frames_before'], info)
        ex.claim('staggered.refused_not_delivered', len(second) == 0, info)
        if dll != 'j1939-21':
            ex.claim('staggered.fd_has_capacity_for_a_second_session', False, info)
    ex.claim('job_threads_alive', sa.alive() and sb.alive())
    ex.witness()


def jobs(tier):
    out = []
    q = tier == 'quick'

    def J(wall=300, h='c01:h_xfer', **p):
        if h == 'c01:h_xfer':
            p['dll'] = 'j1939-22'
        out.append(Job('C02', h, p, W=40, wall=wall if q else 1800, max_paths=100000, validate=1 if q else 2))

    Ls = [61, 119, 120, 121, 179, 180, 181] if q else list(range(61, 301))
    for L in Ls:
        for kind in ('p2p', 'pdu2') + (('bam255',) if (q and L in (61, 121)) or not q else ()):
            J(L=L, kind=kind)
    for wins in ([2, 3], [255, 255]):
        J(L=300, kind='p2p', windows=wins, bystander=False)
        J(L=601, kind='p2p', windows=wins, bystander=False)
    J(L=300, kind='pdu2', windows=[1, 1], bystander=False)
    # broadcasts that stay on the bus longer than the receivers' segment timeout T1 = 750 ms
    J(L=601, kind='pdu2', windows=[1, 1], bam_interval='1/10')
    J(L=4900, kind='pdu2', windows=[1, 1], bystander=False)
    # more than 255 segments: the second byte of the 24-bit segment number and of the segment counts is used
    J(L=15420, kind='p2p', windows=[255, 255], bystander=False)
    J(L=15361, kind='pdu2', windows=[1, 1], bystander=False)
    J(L=121, kind='p2p', shape='twoway', L2=70, kind2='p2p', windows=[1, 2])
    for ad in ([0, 0x20, 0x30], [0x10, 0, 0x30], [253, 1, 0]):
        J(L=121, kind='p2p', addrs=ad)
        J(L=61, kind='pdu2', addrs=ad)
    J(L=70, kind='p2p', shape='twoway', L2=181, kind2='p2p', windows=[3, 1])
    J(L=121, kind='p2p', shape='fanout', L2=70, kind2='pdu2', windows=[2, 2])
    J(L=121, kind='p2p', shape='twoway', L2=121, kind2='pdu2', windows=[1, 1])
    for tr in ([['A', 'B', 70], ['C', 'D', 61], ['B', 'A', 121]], [['A', 'B', 121], ['A', 'C', 70], ['A', 'D', 61], ['A', 'G', 130]], [['B', 'A', 70], ['C', 'A', 71], ['D', 'A', 72]]):
        out.append(Job('C02', 'c01:h_multi', {'transfers': tr, 'explore': False, 'dll': 'j1939-22'}, W=40, wall=300, validate=1))
    J(h='c02:h_overlap', L1=400, L2=70, L3=130, windows=[1, 1])
    J(h='c02:h_overlap', L1=600, L2=70, L3=300, windows=[2, 1])
    J(h='c02:h_staggered', L1=130, L2=70, windows=[1, 1])
    J(h='c02:h_staggered', L1=181, L2=121, windows=[2, 2])
    J(h='c02:h_capacity', L=61, windows=[1, 1])
    J(h='c02:h_capacity', L=121, windows=[2, 1])
    J(h='c02:h_capacity', L=61, two_dest=False, windows=[255, 255])
    if not q:
        for L in (1000, 20000):
            J(L=L, kind='p2p', windows=[255, 255], bystander=False, wall=3000)
            J(L=L, kind='pdu2', windows=[1, 1], bystander=False, wall=3000)
        for (L, L2) in ((121, 70), (70, 121), (181, 121)):
            J(L=L, kind='p2p', shape='twoway', L2=L2, kind2='p2p', wall=3000)
        J(h='c02:h_capacity', L=61, windows=[1, 1], sym=12)
        J(h='c02:h_capacity', L=119, windows=[2, 3], sym=4)
    return out


def meta(tier):
    return {
        'bounds': ['payload lengths ' + ('{61,119,120,121,179,180,181} and 300, 601, 4900, 15361, 15420 with concrete windows' if tier == 'quick' else '61..300, 1000, 15361, 15420, 20000') + '; payload, priority, data page, PDU format / group extension, both max_cmdt_packets symbolic',
                   'all interleavings of deliveries and job passes (DESIGN 3), latency > 0 only (no re-entrant delivery)',
                   '3 stacks; concurrent shapes A->B || B->A, A->B || A->global; staggered shape: second message to the same destination submitted after every bus frame of the first transfer; overlap shape: A->B long || B->A short, second A->B submitted when the inbound message has arrived; capacity shape: 8 RTS/CTS + 4 BAM from one stack, the 9th and 5th call must return False, emit nothing, everything in flight completes (canonical schedule)'],
        'outside': ['other lengths', 'capacity shape under all interleavings', 're-entrant delivery (excluded by the property)'],
        'assumptions': [],
    }

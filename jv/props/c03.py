"""C03 -- wire format interoperates with an independent SAE J1939-21 implementation (J1939-22: see c03 FD jobs)."""
from ..runner import Job


def jobs(tier):
    out = []
    q = tier == 'quick'

    def J(h, wall=300, **p):
        p['prop'] = 'C03'
        out.append(Job('C03', 'tpref:' + h, p, W=40, wall=wall if q else 1800, max_paths=200000, validate=1))

    Ls = [9, 13, 14, 15, 21, 22, 29, 36] if q else list(range(9, 58))
    for L in Ls:
        J('h_orig_cmdt', L=L)
        J('h_resp_cmdt', L=L)
        J('h_orig_bam', L=L, pdu2=True)
        J('h_orig_bam', L=L, pdu2=False)
        J('h_resp_bam', L=L)
    if q:
        # sizes above 255 bytes (second size byte of RTS / BAM / EndOfMsgACK)
        J('h_resp_cmdt', L=300, windows=4, limit=255, gap='1/100')
        J('h_resp_cmdt', L=260, windows=255, limit=7, gap='1/100')
        J('h_orig_bam', L=260, eps_sym=False)
        J('h_resp_bam', L=300, gap='1/20')
        # the largest message (1785 = 0x06F9: bits 1 and 2 of the second size byte; seed C03-10 masked it with 0x03)
        J('h_resp_cmdt', L=1785, windows=255, gap='1/100', limit=255)
        J('h_orig_bam', L=1785, eps_sym=False)
        J('h_resp_bam', L=1785, gap='1/20')
    # a window of one packet and a slow originator: the whole transfer lasts longer than T2 although no single wait does
    J('h_resp_cmdt', L=78, windows=1)
    # messages that fit into one frame
    for L in (0, 1, 8):
        J('h_orig_single', L=L)
        J('h_orig_single', L=L, pdu2=True)
    # paced connection-mode transfer (minimum_tp_rts_cts_dt_interval) against a peer that grants less than remains
    J('h_orig_cmdt', L=29, interval='1/100')
    # a responder may hold the connection open for longer than T3 in total (every hold CTS restarts the wait)
    J('h_orig_cmdt', L=15, holds=[3])
    J('h_orig_cmdt', L=15, holds=[0, 3])
    for L in ([15, 22] if q else [15, 22, 29, 36]):
        J('h_orig_cmdt', L=L, holds=[1])
        J('h_orig_cmdt', L=L, holds=[0, 1])
        if not q:
            J('h_orig_cmdt', L=L, holds=[3, 0, 2])
            J('h_orig_cmdt', L=L, holds=[0, 2, 1, 3])
    if not q:
        for L in (100, 140):
            J('h_resp_cmdt', L=L)
            J('h_orig_bam', L=L)
            J('h_resp_bam', L=L)
        for L in (1785,):
            # 255 packets: concrete spacing / scheduling latency (a fresh symbolic real per packet makes every later
            # query carry all earlier ones)
            J('h_resp_cmdt', L=L, windows=255, gap='1/100', limit=255)
            J('h_resp_cmdt', L=L, windows=255, gap='1/100', limit=16)
            J('h_resp_cmdt', L=L, windows=1, gap='1/100', limit=255)
            J('h_orig_bam', L=L, eps_sym=False)
            J('h_resp_bam', L=L, gap='1/20')
    from . import tpref22
    out += tpref22.jobs('C03', tier)
    return out


def meta(tier):
    return {
        'bounds': ['J1939-21: single frames of 0, 1, 8 bytes (identifier fields and data); payload lengths ' + ('{9,13,14,15,21,22,29,36}' if tier == 'quick' else '9..57, 100, 140, 1785') + '; payload bytes, priority, data page, PDU format / group extension symbolic',
                   'stack as RTS/CTS originator against the reference responder: every CTS grant symbolic 1..min(RTS limit, remaining) (all compositions of the packet count), 0-3 hold CTS before chosen grants spaced 10..450 ms, reply latency symbolic 2.5..150 ms',
                   'stack as RTS/CTS responder against the reference originator: RTS window limit symbolic 1..255, stack window symbolic 1..255, DT spacing symbolic 2.5..195 ms',
                   'BAM in both roles, spacing of the reference originator symbolic 50..195 ms',
                   'scheduling latency of every job wake-up symbolic 10 us..2 ms',
                   'J1939-22: see the tpref22 jobs (FD.TP.CM / FD.TP.DT fields the property enumerates)'],
        'outside': ['peer reactions faster than the job thread scheduling latency (2.5 ms lower bound; those interleavings are explored stack-vs-stack in C01)',
                    'retransmission requests on J1939-21 (observation O-C09-2 in DESIGN; covered on J1939-22 by the rewind jobs)',
                    'reserved / assurance-data bytes of FD.TP.CM'],
        'assumptions': ['reference codec and peer jv/ref/tp21.py, jv/props/tpref.py written from SAE J1939-21 5.10'],
    }

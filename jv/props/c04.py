"""C04 -- address claiming yields unique addresses; the lowest NAME keeps a contested one."""
import itertools
from fractions import Fraction

import j1939

from ..ref import ids
from ..runner import Job
from ..symx import sym_eq_seq, sym_and, sym_or, sym_not, sym_implies, T
from .. import world as W

ST = j1939.ControllerApplication.State
GRID = {'0': Fraction(0), '3ms': Fraction(3, 1000), '100ms': Fraction(1, 10), '240ms': Fraction(24, 100),
        '249.5ms': Fraction(2495, 10000), '250ms': Fraction(1, 4), '260ms': Fraction(26, 100), '600ms': Fraction(6, 10)}
LAT = (Fraction(1, 100000), Fraction(5, 1000))


def sym_name(ex, tag, aac):
    """a valid 64-bit NAME (reserved bit 0) with the given arbitrary-address-capable bit"""
    low = ex.fresh_int(tag + '_low48', 0, (1 << 48) - 1)
    mid = ex.fresh_int(tag + '_b49_62', 0, (1 << 14) - 1)
    return low + mid * 2 ** 49 + (2 ** 63 if aac else 0)


def h_claim(ex, cfg, reent=False, lat_mode='per_rx', dll='j1939-21'):
    """cfg: list of [aac, preferred address, start key, claim delay key]
    lat_mode 'per_rx': fresh symbolic latency per frame and receiver; 'per_frame': one per frame (all receivers
    see the frame at the same instant, as on a physical CAN bus)"""
    lats = {}

    def latency(w_, s, r, i):
        key = (i, r.name) if lat_mode == 'per_rx' else i
        if key not in lats:
            lats[key] = ex.fresh_real('lat_f%d%s' % (i, ('_' + r.name) if lat_mode == 'per_rx' else ''), LAT[0], LAT[1])
        return lats[key]

    w = W.World(ex, mode='timed', eps=Fraction(1, 10000), latency=latency, reentrant='all' if reent else None)
    cas = []
    for i, (aac, addr, start, delay) in enumerate(cfg):
        n = w.add_node('N%d' % i, dll=dll)
        v = sym_name(ex, 'name%d' % i, aac)
        name = j1939.Name(value=v)
        ca = j1939.ControllerApplication(name, addr)
        n.ecu.add_ca(controller_application=ca)
        cas.append({'node': n, 'ca': ca, 'v': v, 'aac': aac, 'pref': addr, 'start': GRID[start], 'delay': GRID[delay], 'i': i})
    for a, b in itertools.combinations(cas, 2):
        ex.assume(a['v'] != b['v'])
    for c in cas:
        w.at(T('1/100') + c['start'], (lambda c=c: c['ca'].start(c['delay'])), 'start')
    t_last = max(c['start'] + c['delay'] for c in cas)
    w.run(until=T('1/100') + t_last + 5)
    # ---- what was announced on the bus (decoded with the reference layout)
    announced = {}   # address -> set of CA indices that sent an address-claimed frame from it
    cannot = set()
    for f in w.log:
        fld = ids.id_fields(f['id'])
        if fld['pf'] != 0xEE:
            ex.claim('only_claim_frames', False, {'id': f['id']})
            continue
        i = int(f['src'][1:])
        ex.claim('claim_frame.format', sym_and(fld['ps'] == 255, len(f['data']) == 8, sym_eq_seq(f['data'], ids.name_bytes(cas[i]['v']))))
        if fld['sa'] == 254:
            cannot.add(i)
        else:
            announced.setdefault(fld['sa'], set()).add(i)
    states = [(c['ca'].state, c['ca'].device_address) for c in cas]
    info = {'states': states, 'announced': {k: sorted(v) for k, v in announced.items()}}
    for c in cas:
        ex.claim('settled', c['ca'].state in (ST.NORMAL, ST.CANNOT_CLAIM), info)
    held = {}
    for c in cas:
        if c['ca'].state == ST.NORMAL:
            held.setdefault(c['ca'].device_address, []).append(c['i'])
    for adr, who in held.items():
        ex.claim('unique_address', len(who) == 1, dict(info, address=adr, holders=who))
    for adr, who in announced.items():
        for i in who:
            c = cas[i]
            holds = c['ca'].state == ST.NORMAL and c['ca'].device_address == adr
            if not holds:
                # then c must not be the lowest NAME among those that contended for adr
                lowest = sym_and(*[c['v'] < cas[j]['v'] for j in who if j != i]) if len(who) > 1 else True
                ex.claim('lowest_name_keeps', sym_not(lowest), dict(info, address=adr, ca=i))
    for c in cas:
        i = c['i']
        lost = any(i in who and not (c['ca'].state == ST.NORMAL and c['ca'].device_address == adr) for adr, who in announced.items())
        if not c['aac']:
            if lost:
                ex.claim('loser_cannot_claim', c['ca'].state == ST.CANNOT_CLAIM and i in cannot, dict(info, ca=i))
            else:
                ex.claim('no_spurious_cannot_claim', i not in cannot and c['ca'].state == ST.NORMAL, dict(info, ca=i))
        else:
            ex.claim('aac_operational', c['ca'].state == ST.NORMAL, dict(info, ca=i))
    ex.claim('job_threads_alive', all(c['node'].job_alive() for c in cas))
    ex.observe('states', states)
    ex.observe('bus', [[f['src'], f['id'], f['data']] for f in w.log])
    ex.witness()


def _configs(tier):
    out = []
    q = tier == 'quick'
    starts = ['0', '3ms', '240ms', '249.5ms', '260ms', '600ms'] if q else list(GRID)
    delays = ['0', '100ms'] if q else ['0', '3ms', '100ms', '250ms']
    addr_sets = [(128, 128), (200, 200), (10, 10), (0, 0), (253, 253), (128, 129), (246, 246)] if q else \
        [(128, 128), (200, 200), (246, 246), (10, 10), (0, 0), (0, 1), (127, 127), (248, 248), (253, 253), (128, 129), (127, 128), (200, 10)]
    for (a0, a1) in addr_sets:
        for aacs in itertools.product([False, True], repeat=2):
            if any(aacs) and max(a0, a1) >= 246 and (a0 > 246 or a1 > 246 or True) and max(a0, a1) in (253,):
                continue    # an AAC loser at 253 would move to the null address: outside the property (no room below 247)
            for s1 in starts:
                for d in (delays if s1 in ('0', '249.5ms') else delays[:1]):
                    out.append([[aacs[0], a0, '0', d], [aacs[1], a1, s1, d]])
    return out


def _configs3(tier):
    out = []
    q = tier == 'quick'
    combos = [('0', '3ms', '260ms'), ('0', '249.5ms', '600ms')] if q else \
        [('0', '3ms', '260ms'), ('0', '249.5ms', '600ms'), ('0', '0', '3ms'), ('0', '249.5ms', '249.5ms'), ('0', '260ms', '260ms'), ('0', '0', '0')]
    for starts in combos:
        for aacs in ([(True, True, True), (False, True, True), (False, False, True)] if q else list(itertools.product([False, True], repeat=3))):
            for addrs in ([(128, 128, 128), (128, 128, 129)] if q else [(128, 128, 128), (128, 128, 129), (200, 201, 200), (10, 11, 10)]):
                out.append([[aacs[i], addrs[i], starts[i], '0'] for i in range(3)])
    # a contest between two CAs for one address while a third CA claims a DIFFERENT address: the loser's cannot-claim
    # frame (source 254) reaches the third one before it has started / inside its veto window and must not disturb it
    for starts in [('0', '100ms', '0'), ('0', '3ms', '240ms')] + ([] if q else [('0', '3ms', '3ms'), ('0', '249.5ms', '100ms')]):
        for aacs in [(False, False, False), (False, False, True)]:
            for addrs in ([(128, 128, 140)] if q else [(128, 128, 140), (10, 10, 140), (200, 200, 10)]):
                out.append([[aacs[i], addrs[i], starts[i], '0'] for i in range(3)])
    return out


def _configs4(tier):
    # four CAs, staggered starts (simultaneous starts of four explode; three are explored in _configs3)
    if tier == 'quick':
        return [[[True, 128, '0', '0'], [False, 128, '3ms', '0'], [True, 128, '260ms', '0'], [True, 129, '600ms', '0']]]
    out = []
    for aacs in [(True, False, True, True), (False, False, False, False), (True, True, True, True), (False, True, False, True)]:
        for addrs in [(128, 128, 128, 129), (128, 128, 128, 128), (200, 201, 200, 201), (10, 10, 11, 140)]:
            for starts in [('0', '3ms', '260ms', '600ms'), ('0', '240ms', '260ms', '600ms')]:
                out.append([[aacs[i], addrs[i], starts[i], '0'] for i in range(4)])
    return out


def jobs(tier):
    out = []
    for cfg in _configs4(tier):
        out.append(Job('C04', 'c04:h_claim', {'cfg': cfg, 'lat_mode': 'per_frame'}, W=96, wall=600 if tier == 'quick' else 1800, max_paths=100000, validate=1))
    for cfg in _configs(tier):
        out.append(Job('C04', 'c04:h_claim', {'cfg': cfg}, W=96, wall=300, max_paths=5000, validate=1))
    # latency exactly 0: every frame handled re-entrantly inside the sender's send call
    for cfg in _configs(tier):
        if cfg[1][3] == '0' and cfg[1][2] in ('0', '3ms', '249.5ms', '260ms'):
            out.append(Job('C04', 'c04:h_claim', {'cfg': cfg, 'reent': True}, W=96, wall=300, max_paths=5000, validate=1))
    # the same contest on J1939-22 stacks (claim frames are plain frames there too; the dispatch code is separate)
    for cfg in _configs(tier):
        if cfg[1][3] == '0' and (tier != 'quick' or cfg[1][2] in ('0', '3ms', '240ms', '260ms')) and (tier != 'quick' or cfg[0][1] in (128, 10, 0)):
            out.append(Job('C04', 'c04:h_claim', {'cfg': cfg, 'dll': 'j1939-22'}, W=96, wall=300, max_paths=5000, validate=1))
    for cfg in _configs3(tier):
        simultaneous = len(set(c[2] for c in cfg)) < 3
        # simultaneously starting CAs on one address: the path count explodes with the number of cascades; explored
        # under a budget and reported as non-exhaustive when the budget is hit
        out.append(Job('C04', 'c04:h_claim', {'cfg': cfg, 'lat_mode': 'per_frame'}, W=96, wall=300 if tier == "quick" else (300 if simultaneous else 1200),
                       max_paths=100000, validate=1, partial_ok=(tier != 'quick' and simultaneous)))
    return out


def meta(tier):
    return {
        'bounds': ['2, 3 and 4 CAs on separate stacks (J1939-21; two CAs also on J1939-22 stacks; four CAs with staggered starts only); 64-bit NAMEs symbolic (valid: reserved bit 0), pairwise distinct; arbitrary-address-capable flag case-split',
                   'preferred addresses equal / adjacent / distinct in the immediate and veto ranges (see _configs; 3 CAs: all on one address, two on one and the third next to it or elsewhere); start offsets and claim delays from the grid ' + str(sorted(GRID)),
                   'delivery latency of every frame to every receiver: fresh symbolic real in [10 us, 5 ms] (FIFO per receiver kept); scheduling latency 0.1 ms',
                   'quiescence = last start + claim delay + 5 s', 'latency exactly 0 = all frames delivered re-entrantly inside the send call (2 CAs)'],
        'outside': ['four CAs starting simultaneously', 'more than four CAs', 'address pools exhausted (no room below 247)'],
        'assumptions': ['NAME ordering oracle compares the symbolic 64-bit values; bus log decoded with jv/ref/ids.py'],
    }

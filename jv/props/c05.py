"""C05 -- messages reach only the addressed applications; foreign traffic is ignored."""
import j1939

from ..ref import ids, tp21, tp22
from ..runner import Job
from ..symx import sym_eq_seq, sym_and, sym_or, sym_not, T, is_sym
from .. import world as W
from .common import make_ca, sym_payload, PROTOCOL_PF, PROTOCOL_PF_FD

SRC = 0x42


class L:
    """a registered listener with its entitlement rule"""

    def __init__(self, w, kind, arg=None, ca=None, held=None):
        self.w, self.kind, self.arg, self.ca, self.held = w, kind, arg, ca, held
        self.got = []

    def __call__(self, prio, pgn, sa, ts, data):
        self.w.callback_fired()
        self.got.append((prio, pgn, sa, list(data)))

    def name(self):
        return '%s:%s' % (self.kind, self.arg if self.kind != 'ca' else self.held)


def build(ex, w, dll, cas, listeners):
    n = w.add_node('S', dll=dll)
    Ls = []
    for i, (hist, addr) in enumerate(cas):
        ca, held = make_ca(w, n, hist, addr, ident=50 + i)
        l = L(w, 'ca', ca=ca, held=held)
        ca.subscribe(l)
        Ls.append(l)
    for spec in listeners:
        if spec == 'none':
            l = L(w, 'none')
            n.ecu.subscribe(l)
        elif isinstance(spec, int):
            l = L(w, 'int', spec)
            n.ecu.subscribe(l, spec)
        else:
            lo, hi = spec
            l = L(w, 'pred', (lo, hi))
            n.ecu.subscribe(l, (lambda d, lo=lo, hi=hi: bool(sym_and(d >= lo, d <= hi))))
        Ls.append(l)
    return n, Ls


def owned_cond(Ls, D):
    """the stack owns destination D: an operational CA holds it or an int-listener is registered for it"""
    return sym_or(*([D == l.held for l in Ls if l.kind == 'ca' and l.held is not None] + [D == l.arg for l in Ls if l.kind == 'int']))


def entitled(l, Ls, D):
    glob = (D == 255)
    own = owned_cond(Ls, D)
    if l.kind == 'ca':
        return sym_or(glob, (D == l.held) if l.held is not None else False)
    if l.kind == 'int':
        return sym_or(glob, D == l.arg)
    if l.kind == 'none':
        return sym_or(glob, own)
    return sym_or(glob, sym_and(own, D >= l.arg[0], D <= l.arg[1]))


def h_single(ex, dll, cas, listeners, pdu2=False, via='notify', flags=(True, False, False)):
    """one single frame with symbolic destination / priority / data page / PDU format / payload"""
    w = W.World(ex, mode='interleave')
    n, Ls = build(ex, w, dll, cas, listeners)
    base = len(w.log)
    prio = ex.fresh_int('prio', 0, 7)
    dp = ex.fresh_int('dp', 0, 1)
    if pdu2:
        pf = ex.fresh_int('pf', 240, 255)
    else:
        pf = ex.fresh_int('pf', 0, 239)
        for p in (PROTOCOL_PF if dll == 'j1939-21' else PROTOCOL_PF_FD):
            ex.assume(pf != p)
    D = ex.fresh_int('dest', 0, 255)
    cid = tp21.can_id(prio, pf, D, SRC, dp)
    if via == 'notify':
        data = sym_payload(ex, 'b', 8)
        w.inject(n, cid, data)
        processed = True
    else:
        data = [0x11, 0x22, 0x33, 0x44, 0x55, 0x66, 0x77, 0x88]
        import can
        ext, rtr, err = flags
        msg = can.Message(arbitration_id=cid, data=data, is_extended_id=ext, is_remote_frame=rtr, is_error_frame=err, check=False)
        n.ecu._listeners[0].on_message_received(msg)
        processed = ext and not rtr and not err
    w.run(until=w.now + T('1/100'))
    for l in Ls:
        info = {'listener': l.name(), 'got': len(l.got), 'pdu2': pdu2}
        if not processed:
            ex.claim('non_extended_remote_error_ignored', len(l.got) == 0, info)
            continue
        ent = True if (pdu2 and True) else entitled(l, Ls, D)
        if l.got:
            ex.claim('delivered_only_to_entitled', ent, info)
            ex.claim('delivered_once', len(l.got) == 1, info)
            pr, pgn, sa, d = l.got[0]
            ex.claim('delivered_intact', sym_and(sa == SRC, sym_eq_seq(d, data), pr == prio,
                                                 (pgn // 256) == dp * 256 + pf), info)
        else:
            ex.claim('entitled_listener_receives', sym_not(ent), info)
    ex.claim('no_frame_transmitted', len(w.log) == base, {'frames': len(w.log) - base})
    ex.observe('got', [[l.name(), l.got] for l in Ls])
    ex.witness()


def h_owner_leaves(ex, dll, how, aac=False):
    """a receive session is open when the owner of its destination address disappears (the CA loses the address to a
    contender with a lower NAME / the ECU-level listener bound to it is unsubscribed).  The remaining data packets are
    then addressed to an address nobody on the stack owns: no CTS / acknowledgement is sent from it, nothing is delivered"""
    w = W.World(ex, mode='interleave')
    n = w.add_node('S', dll=dll)
    X = 0x80
    fd = dll != 'j1939-21'
    spy = L(w, 'none')
    n.ecu.subscribe(spy)
    Ls = [spy]
    if how == 'ca_loses':
        ca, held = make_ca(w, n, 'normal_veto', X, ident=50, aac=aac)
        lca = L(w, 'ca', ca=ca, held=X)
        ca.subscribe(lca)
        Ls.append(lca)
    else:
        lint = L(w, 'int', X)
        if how == 'unsubscribe2':
            # the same callback listens on two addresses (two registrations in a row), then unsubscribes
            n.ecu.subscribe(lint, X - 1)
        n.ecu.subscribe(lint, X)
        Ls.append(lint)
    seg = 60 if fd else 7
    size = 3 * seg
    payload = sym_payload(ex, 'b', size)
    pgn = 0xD000
    pf_cm, pf_dt = (tp22.PF_CM, tp22.PF_DT) if fd else (0xEC, 0xEB)

    def cm(data):
        w.inject(n, tp21.can_id(7, pf_cm, X, SRC), data, fd=fd)

    def dt(k):
        data = tp22.dt_frame(0, k, payload) if fd else tp21.dt(k, payload)
        w.inject(n, tp21.can_id(7, pf_dt, X, SRC), data, fd=fd)
        w.run(until=w.now + T('1/100'))

    def replies(frames):
        out = []
        for f in frames:
            fld = ids.id_fields(f['id'])
            if f['src'] == 'S' and bool(fld['pf'] == pf_cm) and bool(fld['sa'] == X):
                c = int(f['data'][0]) % 16 if fd else int(f['data'][0])
                if c in ((tp22.CTS, tp22.EOMA) if fd else (17, 19)):
                    out.append(c)
        return out

    base = len(w.log)
    cm(tp22.cm_frame(tp22.RTS, 0, size, 3, 255, 0, pgn) if fd else tp21.rts(size, 255, pgn))
    w.run(until=w.now + T('1/100'))
    dt(1)
    opened = len(replies(w.log[base:])) >= 1
    ex.claim('owner_leaves.session_was_open', opened, {'replies': replies(w.log[base:])})
    # ---- the owner of X leaves
    if how == 'ca_loses':
        low = j1939.Name(arbitrary_address_capable=0, identity_number=1).value
        w.inject(n, (6 << 26) | (0xEE << 16) | (0xFF << 8) | X, ids.name_bytes(low))
    else:
        n.ecu.unsubscribe(lint)
    w.run(until=w.now + T('1/100'))
    mark = len(w.log)
    for l in Ls:
        del l.got[:]
    dt(2)
    dt(3)
    if fd:
        cm(tp22.cm_frame(tp22.EOMS, 0, size, 3, 0, 0, pgn))
    w.run(until=w.now + T('1/10'))
    info = {'how': how, 'aac': aac, 'dll': dll}
    ex.claim('owner_leaves.no_reply_from_the_lost_address', len(replies(w.log[mark:])) == 0, dict(info, replies=replies(w.log[mark:])))
    w.run(until=w.now + T(4))
    got = [(l.name(), len(m[3])) for l in Ls for m in l.got if len(m[3]) == size]
    ex.claim('owner_leaves.nothing_delivered', len(got) == 0, dict(info, deliveries=got))
    ex.claim('owner_leaves.job_thread_alive', n.job_alive())
    ex.witness()


def h_mpg_rx(ex, cas, listeners, order):
    """J1939-22: one multi-PG frame with two contained groups to a symbolic destination.  order: kinds of the two groups
    ('pdu1' | 'pdu2').  Every PDU1 group reaches exactly the listeners bound to the frame's destination (all of them for a
    global frame); a PDU2 group reaches at least those (PDU2 has no destination: who else may see it is not claimed)"""
    w = W.World(ex, mode='interleave')
    n, Ls = build(ex, w, 'j1939-22', cas, listeners)
    base = len(w.log)
    D = ex.fresh_int('dest', 0, 255)
    prio = ex.fresh_int('prio', 0, 7)
    groups = []
    for i, kind in enumerate(order):
        dp = ex.fresh_int('g%d_dp' % i, 0, 1)
        if kind == 'pdu2':
            pf = ex.fresh_int('g%d_pf' % i, 240, 255)
            ps = ex.fresh_int('g%d_ge' % i, 0, 255)
        else:
            pf = ex.fresh_int('g%d_pf' % i, 0, 239)
            for p_ in PROTOCOL_PF_FD:
                ex.assume(pf != p_)
            ps = 0
        groups.append((kind, dp * 65536 + pf * 256 + ps, sym_payload(ex, 'g%d_b' % i, 3 + 2 * i)))
    w.inject(n, tp21.can_id(prio, tp22.PF_MPG, D, SRC), tp22.mpg_frame([(c, p_) for k, c, p_ in groups]), fd=True)
    w.run(until=w.now + T('1/100'))
    for l in Ls:
        ent = entitled(l, Ls, D)
        for i, (kind, cpgn, payload) in enumerate(groups):
            mine = [m for m in l.got if len(m[3]) == len(payload)]
            info = {'listener': l.name(), 'group': i, 'kind': kind, 'order': order, 'got': len(mine)}
            if mine:
                if kind == 'pdu1':
                    ex.claim('mpg_rx.delivered_only_to_entitled', ent, info)
                ex.claim('mpg_rx.delivered_once', len(mine) == 1, info)
                pr, pgn, sa, d = mine[0]
                ex.claim('mpg_rx.delivered_intact', sym_and(sa == SRC, sym_eq_seq(d, payload), pgn == cpgn), info)
            else:
                ex.claim('mpg_rx.entitled_listener_receives', sym_not(ent), info)
    ex.claim('mpg_rx.no_frame_transmitted', len(w.log) == base, {'frames': len(w.log) - base})
    ex.witness()


def h_foreign_tp(ex, dll, cas, listeners, kind):
    """a transport-protocol frame (symbolic control byte and fields) to a symbolic destination.
    If nobody on this stack owns the destination: no delivery, no frame, no lasting state."""
    w = W.World(ex, mode='interleave')
    n, Ls = build(ex, w, dll, cas, listeners)
    base = len(w.log)
    D = ex.fresh_int('dest', 0, 254)
    ex.assume(sym_not(owned_cond(Ls, D)))
    prio = ex.fresh_int('prio', 0, 7)
    if dll == 'j1939-21':
        pf = 0xEC if kind == 'cm' else 0xEB
        data = sym_payload(ex, 'b', 8)
    else:
        pf = 0x4D if kind == 'cm' else (0x4E if kind == 'dt' else 0x25)
        data = sym_payload(ex, 'b', 12 if kind == 'cm' else 16)
    cid = tp21.can_id(prio, pf, D, SRC)
    w.inject(n, cid, data, fd=(dll != 'j1939-21'))
    w.run(until=w.now + T(6))      # longer than every transport timeout
    ex.claim('foreign.no_delivery', all(not l.got for l in Ls))
    ex.claim('foreign.no_frame_transmitted', len(w.log) == base, {'frames': [[f['id'], f['data']] for f in w.log[base:]][:3]})
    ex.claim('foreign.no_exception', not n.notify_errors, {'errors': [repr(e) for e in n.notify_errors]})
    ex.claim('foreign.frame_handler_returns', n.hung is None, {'hung': n.hung})
    ex.claim('foreign.job_thread_alive', n.job_alive())
    # afterwards the stack behaves like a fresh one: the same foreign source can open a session to an owned address
    owned = [l.held for l in Ls if l.kind == 'ca' and l.held is not None]
    if owned and dll == 'j1939-21':
        tgt = owned[0]
        k = len(w.log)
        w.inject(n, tp21.can_id(7, 0xEC, tgt, SRC), tp21.rts(20, 255, 0xD000))
        new = w.log[k:]
        ex.claim('foreign.followup_rts_gets_cts', len(new) == 1 and bool(new[0]['data'][0] == 17), {'reply': [f['data'] for f in new]})
    ex.observe('log', [[f['id'], f['data']] for f in w.log[base:]])
    ex.witness()


def h_bystander(ex, dll, size=20):
    """a complete foreign RTS/CTS session between two other nodes, observed by a bystander stack"""
    w = W.World(ex, mode='interleave')
    n, Ls = build(ex, w, dll, [['bypassed', 0x30]], ['none'])
    base = len(w.log)
    A, B = 0x10, 0x20
    payload = sym_payload(ex, 'b', size)
    seq = [(A, B, 0xEC, tp21.rts(size, 255, 0xD000)), (B, A, 0xEC, tp21.cts(3, 1, 0xD000))]
    for i in range(1, tp21.npackets(size) + 1):
        seq.append((A, B, 0xEB, tp21.dt(i, payload)))
    seq.append((B, A, 0xEC, tp21.eoma(size, 0xD000)))
    seq.append((A, B, 0xEC, tp21.abort(3, 0xD000)))
    for (s, d, pf, data) in seq:
        w.inject(n, tp21.can_id(7, pf, d, s), data)
        w.run(until=w.now + T('1/100'))
    w.run(until=w.now + T(6))
    ex.claim('bystander.no_delivery', all(not l.got for l in Ls))
    ex.claim('bystander.no_frame_transmitted', len(w.log) == base)
    ex.claim('bystander.job_thread_alive', n.job_alive() and not n.notify_errors)
    ex.witness()


CFGS = [
    ([['bypassed', 0x20]], ['none']),
    ([['bypassed', 0x20], ['normal_veto', 128]], ['none', 0x50]),
    ([['not_started', 0x20], ['bypassed', 0x21]], [0x20, (0x20, 0x2F)]),
    ([['cannot_claim', 128], ['wait_veto', 130]], ['none', 130]),
    ([['moved', 128], ['bypassed', 128], ['lost_waiting', 140]], ['none', (0, 255)]),
    ([], ['none', 0x77, (0x70, 0x7F)]),
    ([['not_started', 254]], ['none']),
    # address 0 is a valid address (and falsy in Python)
    ([['bypassed', 0x20]], [0, 0x50]),
    ([['bypassed', 0], ['bypassed', 0x21]], ['none', 0x50, (0, 0)]),
    # claiming bypassed, address lost later
    ([['bypassed_moved', 128], ['bypassed_cannot', 140]], ['none', 128]),
]


def jobs(tier):
    out = []
    dlls = ('j1939-21', 'j1939-22')
    for dll in dlls:
        for cas, ls in CFGS:
            if any(h in ('wait_veto', 'lost_waiting') for h, a in cas):
                # transitional states must be last and are observed for 10 ms only
                pass
            out.append(Job('C05', 'c05:h_single', {'dll': dll, 'cas': cas, 'listeners': ls, 'pdu2': False}, W=40, wall=120, validate=1))
            out.append(Job('C05', 'c05:h_single', {'dll': dll, 'cas': cas, 'listeners': ls, 'pdu2': True}, W=40, wall=120, validate=1))
            for kind in (('cm', 'dt') if dll == 'j1939-21' else ('cm', 'dt', 'mpg')):
                if not any(h in ('wait_veto', 'lost_waiting') for h, a in cas):
                    out.append(Job('C05', 'c05:h_foreign_tp', {'dll': dll, 'cas': cas, 'listeners': ls, 'kind': kind}, W=40, wall=120, validate=1))
    for flags in [(e, r, x) for e in (True, False) for r in (True, False) for x in (True, False)]:
        out.append(Job('C05', 'c05:h_single', {'dll': 'j1939-21', 'cas': CFGS[1][0], 'listeners': CFGS[1][1], 'via': 'listener', 'flags': list(flags)}, W=40, wall=120, validate=1))
        out.append(Job('C05', 'c05:h_single', {'dll': 'j1939-21', 'cas': CFGS[1][0], 'listeners': CFGS[1][1], 'via': 'listener', 'flags': list(flags), 'pdu2': True}, W=40, wall=120, validate=1))
    for cas, ls in (CFGS[1], CFGS[2], CFGS[4], CFGS[8]):
        for order in (['pdu1', 'pdu1'], ['pdu2', 'pdu1'], ['pdu1', 'pdu2']):
            out.append(Job('C05', 'c05:h_mpg_rx', {'cas': cas, 'listeners': ls, 'order': order}, W=40, wall=120, validate=1))
    for dll in dlls:
        out.append(Job('C05', 'c05:h_owner_leaves', {'dll': dll, 'how': 'ca_loses'}, W=40, wall=120, validate=1))
        out.append(Job('C05', 'c05:h_owner_leaves', {'dll': dll, 'how': 'ca_loses', 'aac': True}, W=40, wall=120, validate=1))
        out.append(Job('C05', 'c05:h_owner_leaves', {'dll': dll, 'how': 'unsubscribe'}, W=40, wall=120, validate=1))
        out.append(Job('C05', 'c05:h_owner_leaves', {'dll': dll, 'how': 'unsubscribe2'}, W=40, wall=120, validate=1))
    out.append(Job('C05', 'c05:h_bystander', {'dll': 'j1939-21', 'size': 20}, W=40, wall=120, validate=1))
    if tier != 'quick':
        more = [
            ([['bypassed', 1], ['bypassed', 253]], [1, (250, 253)]),
            ([['normal_immediate', 10], ['moved_twice', 128], ['cannot_claim', 140]], ['none', 129, (128, 131)]),
            ([['wait_veto', 200]], [(0, 253)]),
            ([['bypassed', 0x20], ['bypassed', 0x20]], ['none', 'none']),
            ([['moved_lost_waiting', 128]], ['none', 128, 129, 130]),
        ]
        for dll in dlls:
            for cas, ls in more:
                out.append(Job('C05', 'c05:h_single', {'dll': dll, 'cas': cas, 'listeners': ls, 'pdu2': False}, W=40, wall=300, validate=1))
                if not any(h in ('wait_veto', 'lost_waiting', 'moved_lost_waiting') for h, a in cas):
                    for kind in (('cm', 'dt') if dll == 'j1939-21' else ('cm', 'dt', 'mpg')):
                        out.append(Job('C05', 'c05:h_foreign_tp', {'dll': dll, 'cas': cas, 'listeners': ls, 'kind': kind}, W=40, wall=300, validate=1))
        for size in (9, 14, 28):
            out.append(Job('C05', 'c05:h_bystander', {'dll': 'j1939-21', 'size': size}, W=40, wall=300, validate=1))
        # every ordered pair of claim histories (a transitional one only last) with three listener sets
        from .common import CA_STATES
        trans = ('wait_veto', 'lost_waiting', 'moved_lost_waiting', 'bypassed_lost_waiting')
        for a in CA_STATES:
            if a in trans:
                continue
            for b in CA_STATES:
                cas = [[a, 10 if a == 'normal_immediate' else 128], [b, 20 if b == 'normal_immediate' else 140]]
                for ls in (['none'], ['none', 129, (140, 142)], [141, 'none', (0, 255)]):
                    for dll in dlls:
                        out.append(Job('C05', 'c05:h_single', {'dll': dll, 'cas': cas, 'listeners': ls, 'pdu2': False}, W=40, wall=300, validate=1))
                        if ls == ['none']:
                            out.append(Job('C05', 'c05:h_single', {'dll': dll, 'cas': cas, 'listeners': ls, 'pdu2': True}, W=40, wall=300, validate=1))
                        if b not in trans:
                            for kind in (('cm', 'dt') if dll == 'j1939-21' else ('cm', 'dt', 'mpg')):
                                out.append(Job('C05', 'c05:h_foreign_tp', {'dll': dll, 'cas': cas, 'listeners': ls, 'kind': kind}, W=40, wall=300, validate=1))
    return out


def meta(tier):
    return {
        'bounds': ['destination address 0..255, priority, data page, PDU format (non-protocol PDU1 / PDU2 class), 8 data bytes: symbolic',
                   'stack configurations CFGS (0..3 CAs in claim histories reached by the real procedure; ECU-level listeners: unfiltered, integer address, predicate)' + ('' if tier == 'quick' else '; thorough: every ordered pair of the 14 claim histories x 3 listener sets'),
                   'foreign TP.CM / TP.DT (FD: FD.TP.CM / FD.TP.DT / multi-PG) with all data bytes symbolic (every control byte, size, packet, sequence field) to every unowned destination; then 6 s of silence and a follow-up RTS',
                   'can.Message flag combinations (extended, remote, error) through the real MessageListener (concrete data bytes)',
                   'bystander observing a complete foreign 3-packet RTS/CTS session with symbolic payload',
                   'J1939-22: multi-PG frames with two contained groups (PDU1 / PDU2 in both orders, PGNs and data symbolic) to every destination',
                   'owner of the destination address leaves in the middle of an inbound 3-packet session (CA loses the address to a contender, fixed or arbitrary-address-capable; ECU-level listener unsubscribed): later packets get no reply, nothing is delivered',
                   'source address 0x42'],
        'outside': ['source addresses other than 0x42'],
        'assumptions': ['address held by a CA is derived from its claim history, not from the CA object'],
    }

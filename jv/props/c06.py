"""C06 -- lost frames or a vanished peer end a transfer cleanly, never with corrupt data."""
from fractions import Fraction

from ..ref import ids, tp21, tp22
from ..runner import Job
from ..symx import sym_eq_seq, sym_and, sym_or, sym_not, T
from .. import world as W
from .common import Stack, sym_payload, log_digest

A, B = 0x10, 0x20
SLACK = Fraction(5, 1000) + Fraction(2, 1000)


def classify(f, dll):
    """-> (kind, reason) for a logged frame; kind in rts cts dt eoma bam abort other"""
    fld = ids.id_fields(f['id'])
    d = f['data']
    pf = fld['pf']
    if dll == 'j1939-21':
        if bool(pf == 0xEB):
            return 'dt', None
        if bool(pf == 0xEC):
            c = int(d[0])
            return {16: 'rts', 17: 'cts', 19: 'eoma', 32: 'bam', 255: 'abort'}.get(c, 'other'), (int(d[1]) if c == 255 else None)
        return 'other', None
    if bool(pf == 0x4E):
        return 'dt', None
    if bool(pf == 0x4D):
        c = int(d[0]) & 0xF
        return {0: 'rts', 1: 'cts', 2: 'eoms', 3: 'eoma', 4: 'bam', 15: 'abort'}.get(c, 'other'), (int(d[8]) if c == 15 else None)
    return 'other', None


def late_probe(ex, w, sa, sb, dll, kind, npk, info, tag):
    """behavioural test that both sides have given the session up: data packets (and, for connection mode, a CTS) that
    arrive after the give-up time find no session - nothing is delivered, no data packet is sent"""
    del sb.rx[:]
    n0 = len(w.log)
    dest = B if kind == 'p2p' else 255
    for sq in range(1, npk + 1):
        if dll == 'j1939-21':
            w.inject(sb.node, tp21.can_id(7, 0xEB, dest, A), [sq] + [0x5A] * 7)
        else:
            w.inject(sb.node, tp21.can_id(7, tp22.PF_DT, dest, A), tp22.dt_frame(0, sq, [0x5A] * (60 * npk)), fd=True)
    w.run(until=w.now + T('1/20'))
    ex.claim(tag + '.late_packets_deliver_nothing', len(sb.rx) == 0, dict(info, deliveries=len(sb.rx)))
    if kind == 'p2p':
        pgn = 0xD000
        if dll == 'j1939-21':
            w.inject(sa.node, tp21.can_id(7, 0xEC, A, B), tp21.cts(1, 1, pgn))
        else:
            w.inject(sa.node, tp21.can_id(7, tp22.PF_CM, A, B), tp22.cm_frame(tp22.CTS, 0, 0xFFFFFF, 1, 1, 0, pgn), fd=True)
        w.run(until=w.now + T('1/20'))
        dts = [f for f in w.log[n0:] if f['src'] == 'A' and classify(f, dll)[0] == 'dt']
        ex.claim(tag + '.late_cts_releases_no_packet', len(dts) == 0, dict(info, packets=len(dts)))
    del sb.rx[:]
    del sa.rx[:]


def h_fault(ex, dll, L, kind, fault, windows=(1, 1), nmax=None, timer=None):
    """kind: 'p2p' | 'bam';  fault: 'drop' (k-th bus frame lost) | 'silentA' | 'silentB' (node silent from its k-th frame on)"""
    w = W.World(ex, mode='interleave')
    wa, wb = windows
    if wa == 'sym':
        wa = ex.fresh_int('win_a', 1, 255)
    if wb == 'sym':
        wb = ex.fresh_int('win_b', 1, 255)
    sa = Stack(w, 'A', A, dll=dll, max_cmdt_packets=wa)
    sb = Stack(w, 'B', B, dll=dll, max_cmdt_packets=wb)
    seg = 7 if dll == 'j1939-21' else 60
    npk = (L + seg - 1) // seg
    if nmax is None:
        nmax = 2 * npk + 4
    k = ex.fresh_int('fault_index', 0, nmax)
    if fault == 'drop':
        w.drop_index = k
    elif fault == 'silentA':
        sa.node.silent_from = k
    else:
        sb.node.silent_from = k
    payload = sym_payload(ex, 'b', L)
    pf, ps = (0xD0, B) if kind == 'p2p' else (0xFE, 0x10)
    if timer is not None:
        # an unrelated periodic application timer runs on both ECUs (the job thread also serves timers): the session
        # timeouts must not depend on it
        for s_ in (sa, sb):
            s_.node.ecu.add_timer(Fraction(timer), lambda cookie: (w.callback_fired(), True)[1])
    w.run(until=T('1/100'))
    t0 = w.now
    r = sa.ca.send_pgn(0, pf, ps, 6, list(payload))
    ex.claim('accepted', r is True)
    long_t = Fraction(3) if dll == 'j1939-22' else Fraction(5, 4)
    gap = Fraction(5, 100) if dll == 'j1939-21' else Fraction(1, 100)
    w.run(until=w.now + T(8) + gap * npk)
    log = list(w.log)
    lost = [f for f in log if f['lost']]
    faulted = len(lost) > 0
    info = {'fault': fault, 'k': [f['i'] for f in lost][:3], 'frames': len(log), 'L': L, 'windows': [str(wa), str(wb)]}
    # ---- exact payload or nothing
    ex.claim('payload_or_nothing.count', len(sb.rx) <= 1, dict(info, deliveries=len(sb.rx)))
    for d in sb.rx:
        ex.claim('payload_or_nothing.exact', sym_and(len(d['data']) == L, sym_eq_seq(d['data'], payload), d['sa'] == A),
                 dict(info, got_len=len(d['data'])))
    if not faulted:
        ex.claim('delivered_without_fault', len(sb.rx) == 1, info)
    # ---- give-up time and aborts
    kinds = [(f,) + classify(f, dll) for f in log]
    aborts = [(f, reason) for f, kd, reason in kinds if kd == 'abort']
    normal = [f for f, kd, reason in kinds if kd != 'abort']
    t_last = max([f['t'] for f in normal], key=lambda t: t.c) if normal else t0
    for f, reason in aborts:
        ex.claim('abort.reason_not_busy', reason != 1, dict(info, reason=reason, src=f['src']))
        fld = ids.id_fields(f['id'])
        own, peer = (A, B) if f['src'] == 'A' else (B, A)
        # the abort tells the PEER: sent from the stack's own address to the other side of the session
        ex.claim('abort.addressed_to_the_peer', sym_and(fld['sa'] == own, fld['ps'] == peer), dict(info, src=f['src'], id=f['id']))
        # an abort is sent by a side that waits for a CTS or for data: at most 1.25 s (the 3 s of J1939-22 apply to
        # the wait for the end-of-message acknowledge, which ends silently)
        limit = t_last + Fraction(5, 4) + SLACK
        ex.claim('gives_up_within_timeout', f['t'] <= limit, dict(info, abort_at=str(f['t'] - t_last)))
    # whoever stops waiting for a CTS or for data packets tells the peer.  Once the responder has the complete
    # message nobody waits for a CTS or data any more (the originator waits for the acknowledgement): no abort required.
    complete = len(sb.rx) == 1
    if kind == 'p2p' and faulted and fault == 'drop' and not complete:
        ex.claim('abort.sent_when_giving_up', len(aborts) >= 1, info)
    if kind == 'p2p' and faulted and fault != 'drop' and not complete:
        survivor = 'A' if fault == 'silentB' else 'B'
        opened = survivor == 'A' or any(not f['lost'] and kd == 'rts' for f, kd, r_ in kinds)
        if opened and not (survivor == 'B' and len(sb.rx) == 1):
            ex.claim('abort.sent_when_giving_up', any(f['src'] == survivor for f, r_ in aborts), dict(info, survivor=survivor))
    ex.claim('job_threads_alive', sa.alive() and sb.alive())
    ex.claim('no_notify_exception', not sa.node.notify_errors and not sb.node.notify_errors,
             {'errors': [repr(e) for e in sa.node.notify_errors + sb.node.notify_errors][:2]})
    ex.observe('bus', log_digest(w))
    ex.observe('rx', [[d['pgn'], d['sa'], d['data']] for d in sb.rx])
    # ---- a new transfer between the same two addresses is accepted and delivered intact
    w.drop_index = None
    sa.node.silent_from = None
    sb.node.silent_from = None
    w.branching = False
    late_probe(ex, w, sa, sb, dll, kind, npk, info, 'given_up')
    del sb.rx[:]
    del sa.rx[:]
    L2 = L + 1 if kind == 'p2p' else L
    p2 = [(11 * j + 3) % 256 for j in range(L2)]
    t_f = w.now
    r2 = sa.ca.send_pgn(0, pf, ps, 6, list(p2))
    ex.claim('followup.accepted', r2 is True, info)
    w.run(until=w.now + T(3) + gap * npk)
    ok = len(sb.rx) == 1
    ex.claim('followup.delivered_once', ok, dict(info, deliveries=len(sb.rx)))
    if ok:
        ex.claim('followup.intact', sym_eq_seq(sb.rx[0]['data'], p2), info)
    ex.claim('followup.job_threads_alive', sa.alive() and sb.alive())
    if dll != 'j1939-21':
        # J1939-22: giving the session up includes its session number - the full pool (8 RTS/CTS or 4 BAM) can be started
        nmore = 8 if kind == 'p2p' else 4
        rets = [sa.ca.send_pgn(0, pf if kind == 'p2p' else 0xFE, ps if kind == 'p2p' else 0x40 + j, 6, [(j + t) % 256 for t in range(61 + j)]) for j in range(nmore)]
        ex.claim('followup.session_number_released', all(r is True for r in rets), dict(info, accepted=rets.count(True), wanted=nmore))
        w.run(until=w.now + T(3))
    ex.witness()


def h_hold_then_silent(ex, dll, nholds=1):
    """the responder (scripted) clears one packet, sends hold CTS (0 packets) and then falls silent: the originator gives
    the session up no later than 1.25 s after the last hold and tells the peer; the pair is usable again then"""
    w = W.World(ex, mode='interleave')
    sa = Stack(w, 'A', A, dll=dll, max_cmdt_packets=1)
    fd = dll != 'j1939-21'
    seg = 60 if fd else 7
    L = 3 * seg
    payload = sym_payload(ex, 'b', L)
    pgn = 0xD000
    w.run(until=T('1/100'))
    ex.claim('accepted', sa.ca.send_pgn(0, 0xD0, B, 6, list(payload)) is True)
    w.run(until=w.now + T('1/100'))

    def cts(n, nxt):
        if fd:
            w.inject(sa.node, tp21.can_id(7, tp22.PF_CM, A, B), tp22.cm_frame(tp22.CTS, 0, 0xFFFFFF, nxt, n, 0, pgn), fd=True)
        else:
            w.inject(sa.node, tp21.can_id(7, 0xEC, A, B), tp21.cts(n, nxt, pgn))
    cts(1, 1)
    w.run(until=w.now + T('1/50'))
    for _ in range(nholds):
        cts(0, 0xFF if not fd else 0xFFFFFF)
        t_hold = w.now
        w.run(until=w.now + T('2/5'))
    w.run(until=t_hold + Fraction(5, 4) + SLACK)
    kinds = [(f,) + classify(f, dll) for f in w.log if f['src'] == 'A']
    aborts = [f for f, kd, reason in kinds if kd == 'abort']
    info = {'dll': dll, 'holds': nholds, 'aborts': len(aborts)}
    ex.claim('hold.gives_up_within_timeout_after_the_last_hold', len(aborts) >= 1, info)
    r2 = sa.ca.send_pgn(0, 0xD0, B, 6, [1] * (L + 1))
    ex.claim('hold.pair_usable_after_the_timeout', r2 is True, info)
    ex.claim('job_thread_alive', sa.alive())
    ex.witness()


def h_giveup_time(ex, dll, L, kind, fault, windows=(1, 1)):
    """the address pair is usable again no later than the timeout after the last frame: a new transfer
    submitted right after the give-up time is accepted (drop faults only)"""
    w = W.World(ex, mode='interleave')
    wa, wb = windows
    sa = Stack(w, 'A', A, dll=dll, max_cmdt_packets=wa)
    sb = Stack(w, 'B', B, dll=dll, max_cmdt_packets=wb)
    seg = 7 if dll == 'j1939-21' else 60
    npk = (L + seg - 1) // seg
    k = ex.fresh_int('fault_index', 0, 2 * npk + 3)
    w.drop_index = k
    payload = sym_payload(ex, 'b', L)
    pf, ps = (0xD0, B) if kind == 'p2p' else (0xFE, 0x10)
    w.run(until=T('1/100'))
    r = sa.ca.send_pgn(0, pf, ps, 6, list(payload))
    long_t = Fraction(3) if dll == 'j1939-22' else Fraction(5, 4)
    # run until the bus has been silent for the timeout of the state (+ slack): 1.25 s, or 3 s once the J1939-22
    # originator has sent its end-of-message status and waits for the acknowledge
    last_n = -1
    while True:
        n_before = len(w.log)
        t_ref = w.log[-1]['t'] if w.log else w.now
        waits_ack = dll == 'j1939-22' and any(classify(f, dll)[0] == 'eoms' for f in w.log if f['src'] == 'A')
        w.run(until=t_ref + (long_t if waits_ack else Fraction(5, 4)) + SLACK + Fraction(1, 1000))
        if len(w.log) == n_before:
            break
        if len(w.log) > 400:
            break
    lost = [f for f in w.log if f['lost']]
    info = {'k': [f['i'] for f in lost][:2], 'frames': len(w.log), 'L': L}
    w.drop_index = None
    w.branching = False
    late_probe(ex, w, sa, sb, dll, kind, npk, info, 'giveup')
    p2 = [(7 * j + 1) % 256 for j in range(L + 1)]
    r2 = sa.ca.send_pgn(0, pf, ps, 6, list(p2))
    ex.claim('giveup.new_transfer_accepted_after_timeout', r2 is True, info)
    gap = Fraction(5, 100) if dll == 'j1939-21' else Fraction(1, 100)
    w.run(until=w.now + T(3) + gap * npk)
    ok = len(sb.rx) == 1
    ex.claim('giveup.new_transfer_delivered', ok, dict(info, deliveries=len(sb.rx)))
    if ok:
        ex.claim('giveup.new_transfer_intact', sym_eq_seq(sb.rx[0]['data'], p2), info)
    ex.witness()


def jobs(tier):
    out = []
    q = tier == 'quick'

    def J(h='h_fault', wall=300, **p):
        out.append(Job('C06', 'c06:' + h, p, W=40, wall=wall if q else 1800, max_paths=100000, validate=1))

    for dll in ('j1939-21', 'j1939-22'):
        seg = 7 if dll == 'j1939-21' else 60
        sizes = [2, 3, 5] if q else list(range(2, 13))
        for npk in sizes:
            L = seg * npk - (1 if npk % 2 else 0) + (seg + 1 if dll == 'j1939-22' and npk == 0 else 0)
            if dll == 'j1939-22':
                L = max(L, 61)
            for kind in ('p2p', 'bam'):
                wins = [(1, 1), (2, 2), (3, 3), (255, 255)] if kind == 'p2p' else [(1, 1)]
                if q and kind == 'p2p':
                    wins = [(1, 1), (2, 3), (255, 255)]
                for win in wins:
                    for fault in (('drop', 'silentA', 'silentB') if kind == 'p2p' else ('drop', 'silentA')):
                        J(dll=dll, L=L, kind=kind, fault=fault, windows=list(win))
            J('h_giveup_time', dll=dll, L=L, kind='p2p', fault='drop', windows=[1, 1])
            J('h_giveup_time', dll=dll, L=L, kind='p2p', fault='drop', windows=[255, 255])
        for fault in ('drop', 'silentA', 'silentB'):
            J(dll=dll, L=seg * 3 - 1, kind='p2p', fault=fault, windows=[2, 2], timer='2')
        J(dll=dll, L=seg * 3 - 1, kind='bam', fault='drop', windows=[1, 1], timer='9/10')
        J('h_hold_then_silent', dll=dll, nholds=1)
        J('h_hold_then_silent', dll=dll, nholds=3)
        J(dll=dll, L=seg * 3 + 1, kind='p2p', fault='drop', windows=['sym', 'sym'])
        if not q:
            # both windows symbolic (1..255) for every fault kind and more sizes; mixed concrete windows; BAM give-up time
            for npk in (2, 4, 5, 7):
                for fault in ('drop', 'silentA', 'silentB'):
                    J(dll=dll, L=seg * npk + 1, kind='p2p', fault=fault, windows=['sym', 'sym'], wall=3000)
            for npk in (4, 6, 9):
                for win in ((1, 255), (255, 1), (2, 3), (3, 2), (4, 5)):
                    for fault in ('drop', 'silentA', 'silentB'):
                        J(dll=dll, L=seg * npk - 2, kind='p2p', fault=fault, windows=list(win))
            for npk in (2, 3, 5, 8, 12):
                J('h_giveup_time', dll=dll, L=seg * npk - 1, kind='bam', fault='drop', windows=[1, 1])
                J('h_giveup_time', dll=dll, L=seg * npk - 1, kind='p2p', fault='drop', windows=[2, 3])
            for npk in (20, 40):
                for fault in ('drop', 'silentA', 'silentB'):
                    J(dll=dll, L=seg * npk - 3, kind='p2p', fault=fault, windows=[8, 16], wall=3000)
                J(dll=dll, L=seg * npk - 3, kind='bam', fault='drop', windows=[1, 1], wall=3000)
    return out


def meta(tier):
    return {
        'bounds': ['transfer shapes: BAM and RTS/CTS on both data link layers, sizes giving ' + ('{2,3,5}' if tier == 'quick' else '2..12') + ' packets / segments, windows 1, 2, 3, all (and both windows symbolic for ' + ('one size' if tier == 'quick' else '2, 3, 4, 5, 7 packets, all fault kinds; mixed windows; 20 and 40 packets') + ')',
                   'fault: index k of the lost bus frame, or index k from which originator / responder is silent: symbolic over all frames of the exchange (k beyond the last frame = fault-free run)',
                   'payload bytes symbolic; interleavings of deliveries and job passes per DESIGN 3', 'with and without an unrelated periodic application timer (0.9 s / 2 s) on both ECUs', 'scripted responder that holds the connection (1 / 3 hold CTS) and then falls silent',
                   'follow-up transfer on the same pair after 8 s, and (h_giveup_time) immediately after the bus has been silent for the timeout (1.25 s; 3 s on J1939-22) + 8 ms slack'],
        'outside': ['more than one lost frame', 'sizes beyond ' + ('5' if tier == 'quick' else '12 packets (20 and 40 packets with windows 8 / 16 only)') + ' packets'],
        'assumptions': ['timestamps are macro times of the interleaving model (slack 5 ms + 2 ms)'],
    }

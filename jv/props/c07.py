"""C07 -- no sequence of received frames can stop, stall or permanently clog the stack."""
from fractions import Fraction

from ..ref import ids, tp21
from ..runner import Job
from ..symx import sym_eq_seq, sym_and, sym_or, sym_not, T, concretize
from .. import world as W
from .common import Stack, sym_payload

S, P = 0x20, 0x42
GAPS = {'0': Fraction(0), '1ms': Fraction(1, 1000), '0.2s': Fraction(2, 10), '0.5s': Fraction(5, 10), '0.76s': Fraction(76, 100),
        '1.26s': Fraction(126, 100), '3.1s': Fraction(31, 10)}
MSG_PF = 0xD0


def frames_of(w, base=0):
    return [f for f in w.log[base:] if f['src'] == 'S']


def scripted_rx_transfer(ex, w, st, tag, L=16, src=P):
    """a well-formed RTS/CTS transfer from scripted peer `src` to the stack; claims CTS / EOMA / delivery"""
    n = st.node
    payload = [(13 * j + 5) % 256 for j in range(L)]
    npk = tp21.npackets(L)
    k = len(w.log)
    nrx = len(st.rx)
    w.inject(n, tp21.can_id(7, 0xEC, S, src), tp21.rts(L, 255, MSG_PF << 8))
    w.run(until=w.now + T('1/100'))
    sent = 0
    guard = 0
    while sent < npk and guard < 2 * npk + 2:
        guard += 1
        new = frames_of(w, k)
        k = len(w.log)
        cts = [f for f in new if bool(ids.id_fields(f['id'])['pf'] == 0xEC) and bool(f['data'][0] == 17)]
        if not cts:
            break
        cnt = min(concretize(cts[-1]['data'][1]), npk - sent)
        if cnt <= 0:
            break
        for _ in range(cnt):
            sent += 1
            w.inject(n, tp21.can_id(7, 0xEB, S, src), tp21.dt(sent, payload))
            w.run(until=w.now + T('1/1000'))
    w.run(until=w.now + T('1/10'))
    new = frames_of(w, k)
    got = st.rx[nrx:]
    ok = sent == npk and len(got) == 1
    ex.claim(tag + '.inbound_transfer_completes', ok, {'sent': sent, 'npk': npk, 'deliveries': len(got),
                                                       'replies': [list(map(str, f['data'])) for f in frames_of(w, 0)[-3:]]})
    if ok:
        ex.claim(tag + '.inbound_payload', sym_eq_seq(got[0]['data'], payload))


def scripted_tx_transfer(ex, w, st, tag, L=16, dst=P):
    """the stack originates to scripted peer `dst`, which grants everything and acknowledges"""
    n = st.node
    payload = [(17 * j + 9) % 256 for j in range(L)]
    npk = tp21.npackets(L)
    k = len(w.log)
    r = st.ca.send_pgn(0, MSG_PF, dst, 6, list(payload))
    ex.claim(tag + '.outbound_accepted', r is True)
    if r is not True:
        return
    w.run(until=w.now + T('1/100'))
    w.inject(n, tp21.can_id(7, 0xEC, S, dst), tp21.cts(npk, 1, MSG_PF << 8))
    w.run(until=w.now + T('1/10'))
    new = frames_of(w, k)
    dts = [f for f in new if bool(ids.id_fields(f['id'])['pf'] == 0xEB)]
    ok = len(dts) == npk
    ex.claim(tag + '.outbound_all_packets', ok, {'dts': len(dts), 'npk': npk})
    if ok:
        ex.claim(tag + '.outbound_bytes', sym_and(*[sym_eq_seq(f['data'], tp21.dt(i + 1, payload)) for i, f in enumerate(dts)]))
    w.inject(n, tp21.can_id(7, 0xEC, S, dst), tp21.eoma(L, MSG_PF << 8))
    w.run(until=w.now + T('1/10'))
    k2 = len(w.log)
    w.run(until=w.now + T(2))
    ex.claim(tag + '.outbound_session_closed', len(frames_of(w, k2)) == 0, {'late_frames': len(frames_of(w, k2))})


def h_hostile(ex, srcs, gaps, phase='fresh', length=8, dll='j1939-21'):
    """srcs: source address per hostile frame; gaps: grid key before each frame; phase: state of an own
    outgoing transfer to P when the traffic starts: fresh | rts | window | all_sent"""
    w = W.World(ex, mode='interleave')
    st = Stack(w, 'S', S, dll=dll, max_cmdt_packets=2)
    n = st.node
    w.run(until=T('1/100'))
    own_L = 30   # 5 packets
    if phase.startswith('in_'):
        # an inbound session from P is open when the traffic starts: RTS answered / first packet received / BAM running
        if phase == 'in_bam':
            w.inject(n, tp21.can_id(7, 0xEC, 255, P), tp21.bam(own_L, 0xFE10))
        else:
            w.inject(n, tp21.can_id(7, 0xEC, S, P), tp21.rts(own_L, 255, MSG_PF << 8))
        w.run(until=w.now + T('1/100'))
        if phase in ('in_mid', 'in_bam'):
            w.inject(n, tp21.can_id(7, 0xEB, 255 if phase == 'in_bam' else S, P), tp21.dt(1, [(j * 5) % 256 for j in range(own_L)]))
            w.run(until=w.now + T('1/100'))
    elif phase == 'bam':
        # an own broadcast (5 packets, 50 ms apart) is running when the traffic starts
        st.ca.send_pgn(0, 0xFE, 0x33, 6, [(j * 3) % 256 for j in range(own_L)])
        w.run(until=w.now + T('6/100'))
    elif phase != 'fresh':
        r = st.ca.send_pgn(0, MSG_PF, P, 6, [(j * 3) % 256 for j in range(own_L)])
        w.run(until=w.now + T('1/100'))
        if phase in ('window', 'all_sent'):
            grant = 2 if phase == 'window' else 5
            w.inject(n, tp21.can_id(7, 0xEC, S, P), tp21.cts(grant, 1, MSG_PF << 8))
            w.run(until=w.now + T('1/100'))
    for i, (src, gk) in enumerate(zip(srcs, gaps)):
        w.run(until=w.now + GAPS[gk])
        prio = ex.fresh_int('h%d_prio' % i, 0, 7)
        pf = ex.fresh_int('h%d_pf' % i, 0, 255)
        dest = ex.fresh_int('h%d_dest' % i, 0, 255)
        if src == S:
            ex.assume(pf != 0xEE)    # a claim for our own address is address arbitration (C04), not hostile traffic
        data = sym_payload(ex, 'h%d_b' % i, length)
        cid = tp21.can_id(prio, pf, dest, src)
        # through the inbox: the micro scheduler explores delivery before / after a pending job pass
        n.inbox.append({'i': -1, 't': w.now, 'src': 'ext', 'id': cid, 'ext': True, 'data': list(data), 'fd': False, 'lost': False, 'via_listener': True})
        w.run(until=w.now)
    w.branching = False
    # ---- every session opened by the traffic is released within the longest timeout
    w.run(until=w.now + T('6.5'))
    info = {'phase': phase, 'srcs': srcs, 'gaps': gaps}
    # malformed frames may raise inside notify(), but nothing may escape the bus listener (the Notifier thread would die)
    ex.claim('exceptions_contained_at_the_bus_listener', not n.listener_escapes, dict(info, escaped=[repr(e) for e in n.listener_escapes][:2]))
    ex.claim('frame_handler_returns', n.hung is None, dict(info, hung=n.hung))
    ex.claim('job_thread_alive', n.dead is None, dict(info, died=repr(n.dead)))
    ex.claim('no_busy_spin', not n.spin, info)
    if not n.job_alive():
        ex.witness()
        return
    k = len(w.log)
    w.run(until=w.now + T(6))
    ex.claim('quiet_after_longest_timeout', len(frames_of(w, k)) == 0, dict(info, late=[list(map(str, f['data'])) for f in frames_of(w, k)[:2]]))
    # ---- timers still fire on time
    fired = []
    t_reg = w.now
    n.ecu.add_timer(Fraction(1, 4), lambda c: (fired.append(w.now), False)[1])
    w.run(until=w.now + T(1))
    ex.claim('timer_fires_on_time', len(fired) == 1 and bool(fired[0] >= t_reg + Fraction(1, 4)) and bool(fired[0] <= t_reg + Fraction(1, 4) + Fraction(2, 1000)),
             dict(info, fired=[str(t - t_reg) for t in fired]))
    # ---- no session survived: stray data packets are ignored (nothing is delivered or answered)
    nrx = len(st.rx)
    k2 = len(w.log)
    for s_ in sorted(set(srcs)):
        for dest in (255, S):
            for seq in (1, 2, 3):
                w.inject(n, tp21.can_id(7, 0xEB, dest, s_), [seq, 1, 2, 3, 4, 5, 6, 7])
    w.run(until=w.now + T('1/10'))
    ex.claim('stray_packets_after_timeout_ignored', len(st.rx) == nrx and len(frames_of(w, k2)) == 0,
             dict(info, deliveries=len(st.rx) - nrx, frames=len(frames_of(w, k2))))
    # ---- well-formed transfers complete in both directions (same pair the traffic used)
    scripted_rx_transfer(ex, w, st, 'followup')
    scripted_tx_transfer(ex, w, st, 'followup')
    for s_ in set(srcs):
        if s_ not in (P, S):
            scripted_rx_transfer(ex, w, st, 'followup_src%d' % s_, src=s_)
    ex.claim('job_thread_alive_at_end', n.job_alive())
    ex.observe('bus', [[f['id'], f['data']] for f in w.log])
    ex.observe('errors', len(n.notify_errors))
    ex.witness()


def jobs(tier):
    out = []
    q = tier == 'quick'

    def J(wall=300, **p):
        out.append(Job('C07', 'c07:h_hostile', p, W=96, wall=wall if q else 3000, max_paths=400000, validate=1))

    phases = ('fresh', 'rts', 'window', 'all_sent')
    for ph in phases:
        for src in (P, S, 254, 255):
            J(srcs=[src], gaps=['0'], phase=ph)
        J(srcs=[P], gaps=['0'], phase=ph, length=3)
        J(srcs=[P], gaps=['0'], phase=ph, length=0)
    pairs = [('0',), ('0.76s',), ('1.26s',)] if q else [(g,) for g in GAPS]
    for src in ((P, 255) if q else (P, S, 0x42, 254, 255)):
        J(srcs=[src], gaps=['0'], phase='bam')
    for ph in ('in_rts', 'in_mid', 'in_bam'):
        for src in ((P,) if q else (P, S, 0x42, 255)):
            J(srcs=[src], gaps=['0'], phase=ph)
        if not q:
            J(srcs=[P], gaps=['0'], phase=ph, length=3)
            for g in ('0', '0.76s', '1.26s'):
                J(srcs=[P, P], gaps=['0', g], phase=ph, wall=900)
    for ph in (('fresh', 'all_sent') if q else phases):
        for (g,) in pairs:
            J(srcs=[P, P], gaps=['0', g], phase=ph, wall=900)
    if not q:
        for ph in phases:
            for s2 in (S, 254, 255):
                J(srcs=[P, s2], gaps=['0', '1ms'], phase=ph)
                J(srcs=[s2, P], gaps=['0', '1ms'], phase=ph)
    from . import c07fd
    out += c07fd.jobs(tier)
    return out


def meta(tier):
    return {
        'bounds': ['J1939-21: sequences of 1..2 hostile frames; per frame priority, PDU format (all 256), destination (all 256) and all data bytes (every control byte, size, packet, sequence, PGN field) symbolic; source address from {0x42, own 0x20, 254, 255}; data length 8 (and 0, 3 for single frames)',
                   'stack state when the traffic starts: fresh / own 5-packet transfer after RTS / after the first CTS window / after all packets (waiting for the acknowledgement) / own BAM running / inbound 5-packet session after its RTS / after its first packet / inbound BAM after its first packet',
                   'gap before the second frame from ' + ('{0, 0.76 s, 1.26 s}' if tier == 'quick' else str(sorted(GAPS))),
                   'delivery before / after a pending job pass explored (interleaving model)',
                   'afterwards: 6.5 s + 6 s of silence, a one-shot timer, scripted well-formed transfers in both directions on the pair the traffic used',
                   'J1939-22: see c07fd jobs'],
        'outside': ['sequences of 3..60 frames inside one busy period (longer histories only through the return-to-fresh argument of C10)', 'source addresses other than the four classes'],
        'assumptions': ['exceptions raised by notify() are delivered to the caller that fed the frame in (MessageListener logs them): allowed by the property'],
    }

"""C07 -- J1939-22 part (built in the FD round)"""


def jobs(tier):
    return []

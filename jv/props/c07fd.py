"""C07 -- J1939-22 part: hostile FD.TP.CM / FD.TP.DT / multi-PG frames."""
from fractions import Fraction

from ..ref import ids, tp21, tp22
from ..runner import Job
from ..symx import sym_eq_seq, sym_and, sym_or, sym_not, T, concretize
from .. import world as W
from .common import Stack, sym_payload
from .c07 import GAPS, S, P, frames_of

MSG_PF = 0xD0


def fd_rx_transfer(ex, w, st, tag, L=130, src=P, session=0):
    """well-formed FD RTS/CTS transfer from a scripted peer to the stack"""
    n = st.node
    payload = [(13 * j + 5) % 256 for j in range(L)]
    nseg = tp22.nsegments(L)
    pgn = MSG_PF << 8
    k = len(w.log)
    nrx = len(st.rx)
    inj = lambda pf, data: w.inject(n, tp21.can_id(7, pf, S, src), data, fd=True)
    inj(tp22.PF_CM, tp22.cm_frame(tp22.RTS, session, L, nseg, 255, 0, pgn))
    w.run(until=w.now + T('1/100'))
    sent = 0
    guard = 0
    while sent < nseg and guard < 2 * nseg + 2:
        guard += 1
        new = frames_of(w, k)
        k = len(w.log)
        cts = [f for f in new if bool(ids.id_fields(f['id'])['pf'] == tp22.PF_CM) and bool(f['data'][0] % 16 == tp22.CTS)]
        if not cts:
            break
        cnt = min(concretize(cts[-1]['data'][7]), nseg - sent)
        if cnt <= 0:
            break
        for _ in range(cnt):
            sent += 1
            inj(tp22.PF_DT, tp22.dt_frame(session, sent, payload))
            w.run(until=w.now + T('1/1000'))
    if sent == nseg:
        inj(tp22.PF_CM, tp22.cm_frame(tp22.EOMS, session, L, nseg, 0, 0, pgn))
    w.run(until=w.now + T('1/10'))
    got = st.rx[nrx:]
    ok = sent == nseg and len(got) == 1
    ex.claim(tag + '.inbound_transfer_completes', ok, {'sent': sent, 'nseg': nseg, 'deliveries': len(got)})
    if ok:
        ex.claim(tag + '.inbound_payload', sym_eq_seq(got[0]['data'], payload))


def fd_tx_transfer(ex, w, st, tag, L=130, dst=P):
    n = st.node
    payload = [(17 * j + 9) % 256 for j in range(L)]
    nseg = tp22.nsegments(L)
    pgn = MSG_PF << 8
    k = len(w.log)
    r = st.ca.send_pgn(0, MSG_PF, dst, 6, list(payload))
    ex.claim(tag + '.outbound_accepted', r is True)
    if r is not True:
        return
    w.run(until=w.now + T('1/100'))
    rts = [f for f in frames_of(w, k) if bool(ids.id_fields(f['id'])['pf'] == tp22.PF_CM)]
    if not rts:
        ex.claim(tag + '.outbound_rts', False)
        return
    sess = concretize(rts[0]['data'][0]) // 16
    dts = []
    for _ in range(nseg + 1):
        # the originator sends at most its own maximum per CTS: clear the rest again until everything has arrived
        if len(dts) >= nseg:
            break
        w.inject(n, tp21.can_id(7, tp22.PF_CM, S, dst), tp22.cm_frame(tp22.CTS, sess, 0xFFFFFF, len(dts) + 1, nseg - len(dts), 0, pgn), fd=True)
        w.run(until=w.now + T('1/10'))
        got = [f for f in frames_of(w, k) if bool(ids.id_fields(f['id'])['pf'] == tp22.PF_DT)]
        if len(got) == len(dts):
            break
        dts = got
    ok = len(dts) == nseg
    ex.claim(tag + '.outbound_all_segments', ok, {'dts': len(dts), 'nseg': nseg})
    if ok:
        ex.claim(tag + '.outbound_bytes', sym_and(*[sym_eq_seq(f['data'], tp22.dt_frame(sess, i + 1, payload)) for i, f in enumerate(dts)]))
    w.inject(n, tp21.can_id(7, tp22.PF_CM, S, dst), tp22.cm_frame(tp22.EOMA, sess, L, nseg, 0xFF, 0xFF, pgn), fd=True)
    w.run(until=w.now + T('1/10'))
    k2 = len(w.log)
    w.run(until=w.now + T(4))
    ex.claim(tag + '.outbound_session_closed', len(frames_of(w, k2)) == 0, {'late_frames': len(frames_of(w, k2))})


def h_hostile_fd(ex, kinds, srcs, gaps, phase='fresh', length=None, mpglen=4):
    """kinds: per frame 'cm' | 'dt' | 'mpg' ; all data bytes, priority, destination symbolic"""
    w = W.World(ex, mode='interleave')
    st = Stack(w, 'S', S, dll='j1939-22', max_cmdt_packets=2)
    n = st.node
    w.run(until=T('1/100'))
    if phase.startswith('in_'):
        # an inbound session from P (session number 3) is open when the traffic starts
        inL, inseg = 250, 5
        if phase == 'in_bam':
            w.inject(n, tp21.can_id(7, tp22.PF_CM, 255, P), tp22.cm_frame(tp22.BAM, 3, inL, inseg, 0, 0, 0xFE10), fd=True)
        else:
            w.inject(n, tp21.can_id(7, tp22.PF_CM, S, P), tp22.cm_frame(tp22.RTS, 3, inL, inseg, 255, 0, MSG_PF << 8), fd=True)
        w.run(until=w.now + T('1/100'))
        if phase in ('in_mid', 'in_bam'):
            w.inject(n, tp21.can_id(7, tp22.PF_DT, 255 if phase == 'in_bam' else S, P), tp22.dt_frame(3, 1, [(j * 5) % 256 for j in range(inL)]), fd=True)
            w.run(until=w.now + T('1/100'))
    elif phase == 'bam':
        # an own broadcast (5 segments, 10 ms apart) is running when the traffic starts
        st.ca.send_pgn(0, 0xFE, 0x33, 6, [(j * 3) % 256 for j in range(250)])
        w.run(until=w.now + T('15/1000'))
    elif phase != 'fresh':
        st.ca.send_pgn(0, MSG_PF, P, 6, [(j * 3) % 256 for j in range(250)])   # 5 segments
        w.run(until=w.now + T('1/100'))
        if phase in ('window', 'all_sent'):
            w.inject(n, tp21.can_id(7, tp22.PF_CM, S, P), tp22.cm_frame(tp22.CTS, 0, 0xFFFFFF, 1, 2 if phase == 'window' else 5, 0, MSG_PF << 8), fd=True)
            w.run(until=w.now + T('1/100'))
    for i, (kd, src, gk) in enumerate(zip(kinds, srcs, gaps)):
        w.run(until=w.now + GAPS[gk])
        prio = ex.fresh_int('h%d_prio' % i, 0, 7)
        dest = ex.fresh_int('h%d_dest' % i, 0, 255)
        pf = {'cm': tp22.PF_CM, 'dt': tp22.PF_DT, 'mpg': tp22.PF_MPG}[kd]
        ln = length if length is not None else {'cm': 12, 'dt': 16, 'mpg': 12}[kd]
        data = sym_payload(ex, 'h%d_b' % i, ln)
        if kd == 'mpg':
            data[3] = mpglen        # contained length concrete (a symbolic one is a 256-way split per group)
        cid = tp21.can_id(prio, pf, dest, src)
        n.inbox.append({'i': -1, 't': w.now, 'src': 'ext', 'id': cid, 'ext': True, 'data': list(data), 'fd': True, 'lost': False, 'via_listener': True})
        w.run(until=w.now)
    w.branching = False
    w.run(until=w.now + T('6.5'))
    info = {'phase': phase, 'kinds': kinds, 'srcs': srcs, 'gaps': gaps}
    ex.claim('fd.exceptions_contained_at_the_bus_listener', not n.listener_escapes, dict(info, escaped=[repr(e) for e in n.listener_escapes][:2]))
    ex.claim('fd.frame_handler_returns', n.hung is None, dict(info, hung=n.hung))
    ex.claim('fd.job_thread_alive', n.dead is None, dict(info, died=repr(n.dead)))
    ex.claim('fd.no_busy_spin', not n.spin, info)
    if not n.job_alive():
        ex.witness()
        return
    k = len(w.log)
    w.run(until=w.now + T(6))
    ex.claim('fd.quiet_after_longest_timeout', len(frames_of(w, k)) == 0, dict(info, late=len(frames_of(w, k))))
    fired = []
    t_reg = w.now
    n.ecu.add_timer(Fraction(1, 4), lambda c: (fired.append(w.now), False)[1])
    w.run(until=w.now + T(1))
    ex.claim('fd.timer_fires_on_time', len(fired) == 1 and bool(fired[0] >= t_reg + Fraction(1, 4)) and bool(fired[0] <= t_reg + Fraction(1, 4) + Fraction(2, 1000)), info)
    nrx = len(st.rx)
    k2 = len(w.log)
    for s_ in sorted(set(srcs)):
        for dest in (255, S):
            for sess in (0, 3, 9):
                for seg in (1, 2):
                    w.inject(n, tp21.can_id(7, tp22.PF_DT, dest, s_), [sess * 16, seg, 0, 0] + [7] * 60, fd=True)
    w.run(until=w.now + T('1/10'))
    ex.claim('fd.stray_segments_after_timeout_ignored', len(st.rx) == nrx and len(frames_of(w, k2)) == 0, dict(info, deliveries=len(st.rx) - nrx))
    for sess in (0, 7):
        fd_rx_transfer(ex, w, st, 'fd.followup_s%d' % sess, session=sess)
    fd_tx_transfer(ex, w, st, 'fd.followup')
    # the whole originator capacity is still there
    rets = [st.ca.send_pgn(0, MSG_PF + 1 + j, P, 6, [j] * 70) for j in range(8)]
    ex.claim('fd.full_outbound_capacity', all(r is True for r in rets), dict(info, accepted=rets.count(True)))
    brets = [st.ca.send_pgn(0, 0xFE, 0x30 + j, 6, [j] * 70) for j in range(4)]
    ex.claim('fd.full_bam_capacity', all(r is True for r in brets), dict(info, accepted=brets.count(True)))
    w.run(until=w.now + T(6))
    ex.claim('fd.job_thread_alive_at_end', n.job_alive())
    ex.observe('errors', len(n.notify_errors))
    ex.witness()


def jobs(tier):
    out = []
    q = tier == 'quick'

    def J(wall=300, **p):
        out.append(Job('C07', 'c07fd:h_hostile_fd', p, W=40, wall=wall if q else 3000, max_paths=400000, validate=1))

    phases = ('fresh', 'rts', 'window', 'all_sent')
    for ph in phases:
        for kd in ('cm', 'dt', 'mpg'):
            for src in ((P, S) if q else (P, S, 254, 255)):
                J(kinds=[kd], srcs=[src], gaps=['0'], phase=ph)
        J(kinds=['cm'], srcs=[P], gaps=['0'], phase=ph, length=5)
        J(kinds=['dt'], srcs=[P], gaps=['0'], phase=ph, length=64)
        for ml in ((8, 200) if q else (0, 1, 4, 8, 9, 60, 200, 255)):
            J(kinds=['mpg'], srcs=[P], gaps=['0'], phase=ph, length=16, mpglen=ml)
    for kd in ('cm', 'dt'):
        for src in ((P, 255) if q else (P, S, 254, 255)):
            J(kinds=[kd], srcs=[src], gaps=['0'], phase='bam')
    for ph in ('in_rts', 'in_mid', 'in_bam'):
        for kd in ('cm', 'dt'):
            for src in ((P,) if q else (P, S, 254)):
                J(kinds=[kd], srcs=[src], gaps=['0'], phase=ph)
    if not q:
        # two FD frames: every second-frame field is symbolic again (16 session numbers x 6 control types x field
        # comparisons); explored under a budget and reported as non-exhaustive where the budget is hit
        for ph in phases:
            for g in ('0', '1.26s'):
                out.append(Job('C07', 'c07fd:h_hostile_fd', {'kinds': ['cm', 'dt'], 'srcs': [P, P], 'gaps': ['0', g], 'phase': ph}, W=40, wall=1500,
                               max_paths=400000, validate=1, partial_ok=True))
        out.append(Job('C07', 'c07fd:h_hostile_fd', {'kinds': ['cm', 'cm'], 'srcs': [P, P], 'gaps': ['0', '0'], 'phase': 'all_sent'}, W=40, wall=1500,
                       max_paths=400000, validate=1, partial_ok=True))
    return out

"""C08 -- transfer outcome does not depend on where reception pre-empts the job thread."""
import os
import sys
from fractions import Fraction

from ..runner import Job, REPO
from ..symx import sym_eq_seq, sym_and, T
from .. import world as W
from .common import Stack, sym_payload, log_digest
from .c01 import Msg, check_listener

A, B = 0x10, 0x20
PREFIX = os.path.join(REPO, 'j1939') + os.sep


class Preemptor:
    """suspends the job pass of one node at the p-th executed source line (p symbolic) and lets the rest of the
    system - including frame reception on the same stack - run for the hold time"""

    def __init__(self, ex, w, node, hold, budget=1, during_hold=None):
        self.ex, self.w, self.node, self.hold, self.budget = ex, w, node, hold, budget
        self.during_hold = during_hold      # application action performed while the job thread is held
        self.count = 0
        self.fired = 0
        self.where = []
        self.parking = False
        orig = node.run_job

        def run_job():
            old = sys.gettrace()
            self.parking = False
            sys.settrace(self.global_trace)
            try:
                orig()
            finally:
                sys.settrace(old)
        node.run_job = run_job

    def global_trace(self, frame, event, arg):
        if frame.f_code.co_filename.startswith(PREFIX):
            return self.local_trace
        return None

    def local_trace(self, frame, event, arg):
        if event == 'exception' and isinstance(arg[1], W._Park):
            # the model parks the thread by unwinding out of queue.get(); in reality the thread is blocked
            # inside get() at this moment, so the lines passed while unwinding are not pre-emption points
            self.parking = True
        if event != 'line' or self.parking or (self.w.depth > 1 and self.node.held):
            return self.local_trace
        idx = self.count
        self.count += 1
        # schedule choice (enumerated like the interleaving choices, no solver needed): pre-empt here or not
        hit = self.fired < self.budget and self.ex.choose('pre%d' % idx, 2) == 1
        if hit:
            self.fired += 1
            self.where.append('%s:%d' % (os.path.basename(frame.f_code.co_filename), frame.f_lineno))
            sys.settrace(None)
            self.node.held = True
            try:
                if self.during_hold is not None:
                    self.during_hold()
                self.w.run(until=self.w.now + self.hold)
            finally:
                self.node.held = False
                sys.settrace(self.global_trace)
        return self.local_trace


def h_preempt(ex, dll, L, kind, victim, windows=(1, 1), hold='1/1000', two=False, app_send=None):
    """app_send: kind of a second message ('p2p' | 'pdu2') that the APPLICATION thread submits on the victim stack while
    its job thread is held (send_pgn racing the job pass)"""
    w = W.World(ex, mode='interleave')
    w.branching = False          # the pre-emption point is the schedule variable here
    sa = Stack(w, 'A', A, dll=dll, max_cmdt_packets=windows[0])
    sb = Stack(w, 'B', B, dll=dll, max_cmdt_packets=windows[1])
    stacks = [sa, sb]
    by_addr = {s.addr: s for s in stacks}
    w.run(until=T('1/100'))
    node = (sa if victim == 'A' else sb).node
    second = {'ret': None, 'msg': None}

    def submit_second():
        m2 = Msg(ex, 'n', sa, sb, L + 3, app_send, dll)
        second['msg'] = m2
        second['ret'] = m2.send()
    pre = Preemptor(ex, w, node, Fraction(hold), 2 if two else 1, during_hold=submit_second if app_send else None)
    m = Msg(ex, 'm', sa, sb, L, kind, dll)
    # keep the PGN concrete: the pre-emption point is what is explored
    r = m.send()
    ex.claim('accepted', r is True)
    seg = 7 if dll == 'j1939-21' else 60
    npk = (L + seg - 1) // seg
    # "both sides idle afterwards": as soon as the bus has been quiet for 150 ms (no state of a fault-free transfer
    # waits that long) the pair must accept the next transfer - a session that lingers until its timeout is not idle
    limit = w.now + T(8) + Fraction(6, 100) * npk
    while bool(w.now < limit):
        n_before = len(w.log)
        w.run(until=w.now + Fraction(3, 20))
        if len(w.log) == n_before:
            break
    info = {'victim': victim, 'preempted_at': pre.where, 'lines_executed': pre.count}
    # the pre-emption belongs to the transfer under test: the follow-ups run unperturbed
    node.run_job = node.__class__.run_job.__get__(node)
    early = Msg.__new__(Msg)
    early.src, early.dst, early.kind, early.pdu2, early.L, early.dll = sa, sb, kind, m.pdu2, L + 2, dll
    early.dp, early.pf, early.ps, early.prio, early.payload = m.dp, m.pf, m.ps, 6, [(9 * j + 4) % 256 for j in range(L + 2)]
    early.broadcast, early.connection = m.broadcast, (kind == 'p2p')
    r_early = early.send()
    ex.claim('idle_soon_after_completion.next_transfer_accepted', r_early is True, dict(info, quiet_since=str(w.now)))
    more = []
    if dll != 'j1939-21' and L > 60:
        # J1939-22: idle means the whole pool is back - together with `early` the full advertised concurrency
        # (8 RTS/CTS or 4 BAM sessions) must be accepted at once
        for j in range((8 if kind == 'p2p' else 4) - 1):
            x = Msg.__new__(Msg)
            x.src, x.dst, x.kind, x.pdu2, x.L, x.dll = sa, sb, kind, m.pdu2, L + 10 + j, dll
            x.dp, x.pf, x.ps, x.prio, x.payload = m.dp, m.pf, m.ps, 6, [(11 * t + j) % 256 for t in range(L + 10 + j)]
            x.broadcast, x.connection = m.broadcast, (kind == 'p2p')
            more.append((x, x.send()))
        ex.claim('idle_soon_after_completion.full_pool_available', all(r is True for x, r in more), dict(info, accepted=[r for x, r in more].count(True) + (1 if r_early is True else 0)))
    w.run(until=w.now + T(8) + Fraction(6, 100) * npk)
    ex.claim('job_threads_alive', sa.alive() and sb.alive(), dict(info, dead=[repr(s.node.dead) for s in stacks if s.node.dead], spin=[s.name for s in stacks if s.node.spin]))
    expect = [m] + ([early] if r_early is True else []) + [x for x, r in more if r is True]
    if second['msg'] is not None:
        # J1939-21 allows one transfer per pair: the second call may be refused (False) while the first is in progress
        if second['ret'] is True:
            expect.append(second['msg'])
        else:
            ex.claim('app_send.refusal_is_false', second['ret'] is False and dll == 'j1939-21', dict(info, returned=second['ret']))
    ok = True
    for s in stacks:
        ok = check_listener(ex, s, s.rx, by_addr, expect, 'ca', dll) and ok
    ex.claim('no_notify_exception', all(not s.node.notify_errors for s in stacks), dict(info, errors=[repr(e) for s in stacks for e in s.node.notify_errors][:2]))
    if pre.fired == 0:
        ex.note('pre-emption index beyond the last executed line on some paths (fault-free baseline)')
    # both sides idle afterwards: a follow-up transfer is accepted and delivered
    node.run_job = node.__class__.run_job.__get__(node)
    for s in stacks:
        del s.rx[:]
    L2 = L + 1
    p2l = [(5 * j + 1) % 256 for j in range(L2)]
    f = Msg.__new__(Msg)
    f.src, f.dst, f.kind, f.pdu2, f.L, f.dll = sa, sb, kind, m.pdu2, L2, dll
    f.dp, f.pf, f.ps, f.prio, f.payload = m.dp, m.pf, m.ps, 6, p2l
    f.broadcast, f.connection = m.broadcast, (kind == 'p2p')
    ex.claim('followup.accepted', f.send() is True, info)
    w.run(until=w.now + T(4) + Fraction(6, 100) * npk)
    for s in stacks:
        check_listener(ex, s, s.rx, by_addr, [f], 'followup', dll)
    ex.claim('followup.job_threads_alive', sa.alive() and sb.alive(), info)
    if dll != 'j1939-21' and app_send:
        # the originator pools are complete: 8 RTS/CTS (4 BAM) sessions can be started at once
        n_more = 4 if kind != 'p2p' else 8
        extra = [sa.ca.send_pgn(0, 0xFE if kind != 'p2p' else 0xD5, (0x60 + j) if kind != 'p2p' else B, 6, [j] * (75 + j)) for j in range(n_more)]
        ex.claim('app_send.full_capacity_afterwards', all(r is True for r in extra), dict(info, accepted=extra.count(True), wanted=n_more))
        w.run(until=w.now + T(4))
    ex.observe('bus', log_digest(w))
    ex.observe('where', pre.where)
    ex.witness()


def jobs(tier):
    out = []
    q = tier == 'quick'

    def J(wall=600, partial=False, **p):
        out.append(Job('C08', 'c08:h_preempt', p, W=40, wall=wall if (q or partial) else 3000, max_paths=400000 if partial else 200000, validate=1, partial_ok=partial))

    for dll in ('j1939-21', 'j1939-22'):
        seg = 7 if dll == 'j1939-21' else 60
        sizes = [3, 5] if q else [3, 5, 8, 12]
        for npk in sizes:
            L = seg * npk - 2
            for victim in ('A', 'B'):
                for win in ([(1, 1), (2, 2), (255, 255)]):
                    J(dll=dll, L=L, kind='p2p', victim=victim, windows=list(win))
                if victim == 'A' or npk == sizes[0]:
                    J(dll=dll, L=L, kind='pdu2', victim=victim)
        J(dll=dll, L=seg * 3 - 2, kind='p2p', victim='A', windows=[2, 2], hold='5/1000')
        J(dll=dll, L=seg * 3 - 2, kind='p2p', victim='B', windows=[1, 1], hold='1/5000')
        # the application submits a second message on the victim stack while its job thread is held
        J(dll=dll, L=seg * 2 - 2, kind='pdu2', victim='A', app_send='pdu2')
        J(dll=dll, L=seg * 2 - 2, kind='p2p', victim='A', windows=[1, 1], app_send='p2p')
        J(dll=dll, L=seg * 2 - 2, kind='p2p', victim='A', windows=[2, 2], app_send='pdu2')
        if not q:
            for victim in ('A', 'B'):
                # every PAIR of pre-emption points: explored under a budget and reported as non-exhaustive when it is hit
                # (the property asks for pairs to be sampled, single pre-emptions are exhaustive)
                J(dll=dll, L=seg * 3 - 2, kind='p2p', victim=victim, windows=[1, 1], two=True, wall=2400, partial=True)
    return out


def meta(tier):
    return {
        'bounds': ['pre-emption point: every executed source line (sys.settrace line events in /repo/j1939 frames) of the chosen node\'s job passes during one transfer, enumerated exhaustively as a schedule choice (one pre-emption per run; thorough: every pair for one shape)',
                   'while the job thread is held, the rest of the system - the peer stack and frame reception on the held stack - runs until nothing more is enabled, for a hold time of 0.2 / 1 / 5 ms',
                   'RTS/CTS and BAM, J1939-21 and J1939-22, ' + ('3 and 5' if tier == 'quick' else '3, 5, 8, 12') + ' packets/segments, windows 1, 2, all; payload and PGN fields symbolic',
                   'oracle: C01/C02 delivery oracle, job threads alive, follow-up transfer', 'additional shape: the application thread submits a second message on the held stack during the hold (send_pgn racing the job pass); both are delivered, capacity complete afterwards'],
        'outside': ['pre-emption inside a source line', 'partial progress of the rest of the system during the hold (only maximal progress is explored)', 'more than two pre-emptions'],
        'assumptions': ['every such interleaving is realisable under the GIL (line boundaries are bytecode boundaries)'],
    }

"""C09 -- originator obeys flow control and pacing; responder never over-grants."""
from ..runner import Job


def jobs(tier):
    out = []
    q = tier == 'quick'

    def J(h, wall=300, **p):
        p['prop'] = 'C09'
        out.append(Job('C09', 'tpref:' + h, p, W=40, wall=wall if q else 1800, max_paths=200000, validate=1))

    Ls = [9, 15, 22, 29, 36] if q else list(range(9, 58, 3))
    for L in Ls:
        J('h_orig_cmdt', L=L)
        J('h_resp_cmdt', L=L)
    for L in ([15, 29] if q else [15, 22, 29, 36]):
        J('h_orig_cmdt', L=L, holds=[1, 0, 1])
        for ivl in (['1/100'] if q else ['1/1000', '1/100', '1/20']):
            J('h_orig_cmdt', L=L, interval=ivl)
            J('h_orig_cmdt', L=L, interval=ivl, holds=[0, 1])
    for L in ([15, 22] if q else [9, 15, 22, 29, 57, 100]):
        for ivl in ([None, '1/100', '19/100'] if q else [None, '1/100', '1/20', '1/10', '19/100']):
            J('h_orig_bam', L=L, interval=ivl)
    J('h_resp_cmdt', L=78, windows=1)
    J('h_orig_bam', L=64, timer='2/5')
    # both intervals configured, each time the OTHER one is the shorter: every transfer kind is paced by its own setting
    J('h_orig_cmdt', L=29, interval='1/20', other_interval='1/100')
    J('h_orig_bam', L=22, interval='1/10', other_interval='1/100')
    # BAM pacing while the job thread has other work that takes time (every send call of a pass takes 1 ms / 0.5 ms)
    J('h_orig_bam_busy', L=29, burst=12)
    J('h_orig_bam_busy', L=22, burst=30, tx='1/2000', interval='1/10')
    J('h_orig_bam_busy', L=29, burst=6, first='bam', cmdt_interval='1/50')
    if not q:
        for burst in (3, 20, 45):
            for ivl in (None, '1/50', '1/10'):
                J('h_orig_bam_busy', L=36, burst=burst, interval=ivl)
    if not q:
        J('h_resp_cmdt', L=1785, windows=255, gap='1/100', limit=16)
        J('h_resp_cmdt', L=140)
    from . import tpref22
    out += tpref22.jobs('C09', tier)
    return out


def meta(tier):
    return {
        'bounds': ['J1939-21 stack as originator vs reference responder: every CTS grant symbolic, holds before chosen grants, stack window symbolic 1..255; lengths ' + ('{9,15,22,29,36}' if tier == 'quick' else '9..57 step 3'),
                   'J1939-21 stack as responder vs reference originator: RTS limit symbolic 1..255, own maximum symbolic 1..255',
                   'minimum_tp_rts_cts_dt_interval in {None, 1, 10, 50 ms}; minimum_tp_bam_dt_interval in {default, 10, 50, 100, 190 ms}; spacing claims over symbolic instants (scheduling latency symbolic 10 us..2 ms)',
                   'BAM pacing under load (J1939-21): an RTS/CTS burst of 12 / 30 packets handled by the same job thread, every send call taking 1 / 0.5 ms, CTS arriving at a symbolic instant around a BAM deadline',
                   'J1939-22: see the tpref22 jobs'],
        'outside': ['the gap between the last packet of one CTS window and the first packet after the next CTS (governed by the peer\'s clearance, not by the configured interval: observation O-C09-1 in DESIGN)',
                    'peer reactions faster than 2.5 ms',
                    'retransmission requests on J1939-21 (the originator ignores the next-packet field of a CTS and continues from its own position: observation O-C09-2 in DESIGN); on J1939-22 they are covered (rewind jobs)'],
        'assumptions': ['reference peer jv/props/tpref.py'],
    }

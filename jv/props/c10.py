"""C10 -- transport capacity is conserved over any history of good and failed transfers."""
from fractions import Fraction

from ..ref import ids, tp21, tp22
from ..runner import Job
from ..symx import sym_eq_seq, sym_and, sym_or, sym_not, T
from .. import world as W
from .common import Stack, sym_payload

ADDR = {'A': 0x10, 'B': 0x20, 'C': 0x30}
OUTCOMES = ['clean', 'frame_lost', 'responder_aborts', 'originator_aborts', 'responder_silent', 'originator_silent', 'surplus_cts']


def abort_frame(dll, src, dst, pgn, reason=2, session=0):
    if dll == 'j1939-21':
        return tp21.can_id(7, 0xEC, dst, src), tp21.abort(reason, pgn), False
    data = [0] * 12
    data[0] = 15 | (session << 4)
    data[1:7] = [0xFF] * 6
    data[7] = 0xFF
    data[8] = reason
    data[9:12] = tp21.pgn_bytes(pgn)
    return tp21.can_id(7, 0x4D, dst, src), data, True


def h_history(ex, dll, steps, windows=(2, 2, 2), explore=False, fixed=None):
    """steps: list of [src, dst, kind, L]; every step ends with a symbolic outcome and is followed by quiescence.
    explore: all interleavings of deliveries and job passes during the history (canonical schedule otherwise)"""
    w = W.World(ex, mode='interleave')
    w.branching = bool(explore)
    st = {nm: Stack(w, nm, ADDR[nm], dll=dll, max_cmdt_packets=windows[i]) for i, nm in enumerate('ABC')}
    seg = 7 if dll == 'j1939-21' else 60
    w.run(until=T('1/100'))
    hist = []
    for i, (s, d, kind, L) in enumerate(steps):
        npk = (L + seg - 1) // seg
        if fixed is not None:
            # long histories: outcome and fault position of every step are given (payloads stay symbolic)
            outcome, k = fixed[i % len(fixed)]
            k = min(k, 2 * npk + 3)
        else:
            sel = ex.fresh_int('outcome%d' % i, 0, len(OUTCOMES) - 1)
            sel = int(sel)          # case split by the solver
            outcome = OUTCOMES[sel]
        if kind != 'p2p' and outcome in ('responder_aborts', 'originator_aborts', 'responder_silent', 'surplus_cts'):
            outcome = 'clean'
        if fixed is None:
            k = ex.fresh_int('k%d' % i, 0, 2 * npk + 3) if outcome not in ('clean', 'surplus_cts') else 0
        base = len(w.log)
        pgn = 0xD000 if kind == 'p2p' else 0xFE10
        hook = None
        if outcome == 'frame_lost':
            w.drop_index = base + k
        elif outcome == 'responder_silent':
            st[d].node.silent_from = st[d].node.sent + k
        elif outcome == 'originator_silent':
            st[s].node.silent_from = st[s].node.sent + k
        elif outcome == 'surplus_cts':
            # after the last data packet the responder sends one more (non-hold) CTS and falls silent
            cnt = {'dt': 0}

            def hook(f, s=s, d=d, npk=npk, pgn=pgn, cnt=cnt):
                fld = ids.id_fields(f['id'])
                if f['src'] != s or not bool(fld['pf'] == (0xEB if dll == 'j1939-21' else 0x4E)) or hook_done:
                    return
                cnt['dt'] += 1
                if cnt['dt'] == npk:
                    hook_done.append(1)
                    st[d].node.silent_from = st[d].node.sent
                    if dll == 'j1939-21':
                        w.inject(st[s].node, tp21.can_id(7, 0xEC, ADDR[s], ADDR[d]), tp21.cts(1, npk, pgn))
                    else:
                        w.inject(st[s].node, tp21.can_id(7, 0x4D, ADDR[s], ADDR[d]), tp22.cm_frame(tp22.CTS, int(f['data'][0]) >> 4, 0xFFFFFF, npk, 1, 0, pgn), fd=True)
            hook_done = []
            w.frame_hooks.append(hook)
        elif outcome in ('responder_aborts', 'originator_aborts'):
            frm, to = (d, s) if outcome == 'responder_aborts' else (s, d)

            def hook(f, frm=frm, to=to, base=base, k=k, pgn=pgn):
                if f['i'] >= base and bool(f['i'] == base + k) and not hook_done:
                    hook_done.append(1)
                    sess = (int(f['data'][0]) >> 4) if dll != 'j1939-21' and bool(ids.id_fields(f['id'])['pf'] == 0x4D) else 0
                    cid, data, fd = abort_frame(dll, ADDR[frm], ADDR[to], pgn, session=sess)
                    w.bus_send(st[frm].node, cid, True, data, fd)
            hook_done = []
            w.frame_hooks.append(hook)
        payload = sym_payload(ex, 'p%d_' % i, L)
        for x in st.values():
            del x.rx[:]
        if kind == 'p2p':
            r = st[s].ca.send_pgn(0, 0xD0, ADDR[d], 6, list(payload))
        else:
            r = st[s].ca.send_pgn(0, 0xFE, 0x10, 6, list(payload))
        ex.claim('history.accepted_when_pair_idle', r is True, {'step': i, 'outcome': outcome, 'history': hist})
        gap = Fraction(6, 100) if dll == 'j1939-21' else Fraction(2, 100)
        w.run(until=w.now + T(7) + gap * npk)
        w.drop_index = None
        for x in st.values():
            x.node.silent_from = None
        if hook is not None:
            w.frame_hooks.remove(hook)
        # whatever was delivered is exact (C06), never a mixture
        for x in st.values():
            for m in x.rx:
                if len(m['data']) == L and bool(m['sa'] == ADDR[s]):
                    ex.claim('history.delivery_exact', sym_eq_seq(m['data'], payload), {'step': i, 'outcome': outcome})
        hist.append([s, d, kind, L, outcome])
    info = {'history': hist}
    w.branching = False
    # ---- supporting evidence for histories longer than the bound (DESIGN C10 part 2): after quiescence the protocol
    # state of every stack equals that of a fresh stack with the same configuration.  Reported, never claimed.
    try:
        import j1939
        same = True
        for i, nm in enumerate('ABC'):
            twin = w.add_node('T' + nm, dll=dll, max_cmdt_packets=windows[i])
            tca = j1939.ControllerApplication(st[nm].ca._name, ADDR[nm], bypass_address_claim=True)
            twin.ecu.add_ca(controller_application=tca)
            w.nodes.remove(twin)          # the twin is not on the bus
            if W.protocol_state(st[nm].node.ecu) != W.protocol_state(twin.ecu):
                same = False
        ex.note('state_equal_to_fresh after history: %s' % ('yes' if same else 'NO (induction not available, claim bounded by the history length)'))
    except Exception as e:
        ex.note('state_equal_to_fresh: not evaluated (%s)' % type(e).__name__)
    ex.claim('job_threads_alive', all(x.alive() for x in st.values()), info)
    # ---- the full advertised concurrency is available again
    for x in st.values():
        del x.rx[:]
    batch = []
    if dll == 'j1939-21':
        pairs = [('A', 'B'), ('A', 'C'), ('B', 'A'), ('C', 'A'), ('B', 'C'), ('C', 'B')]
        for j, (s, d) in enumerate(pairs):
            p = [(j * 40 + t) % 256 for t in range(16 + j)]
            batch.append((s, d, 'p2p', p))
        for j, s in enumerate('ABC'):
            p = [(200 + j * 7 + t) % 256 for t in range(10 + j)]
            batch.append((s, None, 'bam', p))
    else:
        for j in range(8):
            p = [(j * 29 + t) % 256 for t in range(61 + j)]
            batch.append(('A', 'B' if j % 2 == 0 else 'C', 'p2p', p))
        for j in range(4):
            p = [(100 + j * 31 + t) % 256 for t in range(70 + j)]
            batch.append(('A', None, 'bam', p))
    n0 = len(w.log)
    for (s, d, kind, p) in batch:
        if kind == 'p2p':
            r = st[s].ca.send_pgn(0, 0xD1, ADDR[d], 6, list(p))
        else:
            r = st[s].ca.send_pgn(0, 0xFE, 0x20 + len(p) % 8, 6, list(p))
        ex.claim('capacity.batch_accepted', r is True, dict(info, src=s, dst=d, kind=kind, length=len(p)))
    # a call beyond the capacity is refused without emitting anything
    n1 = len(w.log)
    if dll == 'j1939-21':
        r = st['A'].ca.send_pgn(0, 0xD1, ADDR['B'], 6, [1] * 20)
    else:
        r = st['A'].ca.send_pgn(0, 0xD1, ADDR['B'], 6, [1] * 100)
    ex.claim('capacity.excess_call_refused', r is False, info)
    ex.claim('capacity.refusal_emits_nothing', len(w.log) == n1, dict(info, frames=len(w.log) - n1))
    if dll != 'j1939-21':
        r = st['A'].ca.send_pgn(0, 0xFE, 0x33, 6, [2] * 100)
        ex.claim('capacity.excess_bam_refused', r is False and len(w.log) == n1, info)
    w.run(until=w.now + T(6))
    for (s, d, kind, p) in batch:
        targets = [d] if kind == 'p2p' else [x for x in 'ABC' if x != s]
        for tname in targets:
            got = [m for m in st[tname].rx if len(m['data']) == len(p) and bool(m['sa'] == ADDR[s])]
            ok = len(got) == 1
            ex.claim('capacity.batch_delivered_once', ok, dict(info, src=s, dst=tname, kind=kind, length=len(p), got=len(got)))
            if ok:
                ex.claim('capacity.batch_intact', sym_eq_seq(got[0]['data'], p), dict(info, src=s, dst=tname))
    ex.claim('job_threads_alive_at_end', all(x.alive() for x in st.values()), info)
    ex.observe('history', hist)
    ex.observe('frames', len(w.log))
    ex.witness()


def h_inbound(ex, dll, n_in=2, long_out=False):
    """inbound sessions started by other nodes never consume or release the stack's own outbound capacity:
    A starts its full outbound concurrency, n_in inbound sessions to A run and END while A's sessions are still
    in flight; then one more outbound call must still be refused (the capacity is in use), emit nothing, and
    everything in flight must complete intact.  Finally the full concurrency must be available again."""
    w = W.World(ex, mode='interleave')
    w.branching = False
    st = {nm: Stack(w, nm, ADDR[nm], dll=dll, max_cmdt_packets=1) for nm in 'ABC'}
    w.run(until=T('1/100'))
    seg = 7 if dll == 'j1939-21' else 60
    L_out = seg * (14 if long_out else 9)
    L_in = seg + 2
    batch = []
    if dll == 'j1939-21':
        for j, d in enumerate(['B', 'C']):
            batch.append(('A', d, 'p2p', [(j * 50 + t) % 256 for t in range(L_out + j)]))
        batch.append(('A', None, 'bam', [(9 + t) % 256 for t in range(L_out + 3)]))
    else:
        for j in range(8):
            batch.append(('A', 'B' if j % 2 else 'C', 'p2p', [(j * 29 + t) % 256 for t in range(L_out + j)]))
        for j in range(4):
            batch.append(('A', None, 'bam', [(100 + j * 31 + t) % 256 for t in range(L_out + 10 + j)]))

    def start(item):
        s, d, kind, p = item
        if kind == 'p2p':
            return st[s].ca.send_pgn(0, 0xD1, ADDR[d], 6, list(p))
        return st[s].ca.send_pgn(0, 0xFE, 0x20 + len(p) % 8, 6, list(p))

    for item in batch:
        ex.claim('inbound.batch_accepted', start(item) is True, {'dst': item[1], 'kind': item[2], 'length': len(item[3])})
    when = int(ex.fresh_int('start_inbound_after_frames', 0, 6))
    target = len(w.log) + when
    w.run(stop=lambda: len(w.log) >= target, until=w.now + T(1))
    inbound = []
    for j, s in enumerate(['B', 'C'][:n_in]):
        p = sym_payload(ex, 'in%d_' % j, L_in)
        ex.claim('inbound.accepted', st[s].ca.send_pgn(0, 0xD2, ADDR['A'], 6, list(p)) is True)
        inbound.append((s, p))

    def inbound_done():
        return all(len([m for m in st['A'].rx if len(m['data']) == L_in and bool(m['sa'] == ADDR[s])]) >= 1 for s, p in inbound)

    w.run(stop=inbound_done, until=w.now + T(3))
    in_flight = [it for it in batch if it[2] == 'p2p' and not [m for m in st[it[1]].rx if len(m['data']) == len(it[3])]]
    info = {'in_flight': len(in_flight), 'inbound_done': inbound_done(), 'after_frames': when}
    if inbound_done() and len(in_flight) == len([it for it in batch if it[2] == 'p2p']):
        n1 = len(w.log)
        extra = ('A', 'B', 'p2p', [7] * (L_out + 40))
        r = start(extra)
        ex.claim('inbound.capacity_still_in_use_refused', r is False, info)
        ex.claim('inbound.refusal_emits_nothing', len(w.log) == n1, dict(info, frames=len(w.log) - n1))
    else:
        ex.note('h_inbound: inbound sessions did not end while the outbound batch was in flight (shape not reached)')
    gap = Fraction(6, 100) if dll == 'j1939-21' else Fraction(2, 100)
    w.run(until=w.now + T(8) + gap * (L_out // seg + 2))
    for (s, p) in inbound:
        got = [m for m in st['A'].rx if len(m['data']) == L_in and bool(m['sa'] == ADDR[s])]
        ex.claim('inbound.delivered_once', len(got) == 1, {'from': s, 'got': len(got)})
        if len(got) == 1:
            ex.claim('inbound.intact', sym_eq_seq(got[0]['data'], p))
    for (s, d, kind, p) in batch:
        for tname in ([d] if kind == 'p2p' else ['B', 'C']):
            got = [m for m in st[tname].rx if len(m['data']) == len(p) and bool(m['sa'] == ADDR[s])]
            ex.claim('inbound.outbound_delivered_once', len(got) == 1, dict(info, dst=tname, kind=kind, length=len(p), got=len(got)))
            if len(got) == 1:
                ex.claim('inbound.outbound_intact', sym_eq_seq(got[0]['data'], p), dict(info, dst=tname))
    # and again after everything has ended
    for x in st.values():
        del x.rx[:]
    for item in batch:
        ex.claim('inbound.capacity_after_inbound_sessions_ended', start(item) is True, {'dst': item[1], 'kind': item[2]})
    w.run(until=w.now + T(8) + gap * (L_out // seg + 2))
    for (s, d, kind, p) in batch:
        for tname in ([d] if kind == 'p2p' else ['B', 'C']):
            got = [m for m in st[tname].rx if len(m['data']) == len(p) and bool(m['sa'] == ADDR[s])]
            ex.claim('inbound.second_batch_delivered_once', len(got) == 1, {'dst': tname, 'kind': kind, 'length': len(p), 'got': len(got)})
    ex.claim('job_threads_alive', all(x.alive() for x in st.values()))
    ex.witness()


def h_inbound_fail(ex, dll, session=0, end='timeout', lead='1/5'):
    """an inbound session that FAILS (its originator falls silent, or aborts) while the stack's own outbound sessions
    are all open and unanswered: the failure of the inbound session must not release outbound capacity - one more
    call is still refused, emits nothing; afterwards the full concurrency is available again"""
    w = W.World(ex, mode='interleave')
    w.branching = False
    st = {nm: Stack(w, nm, ADDR[nm], dll=dll, max_cmdt_packets=1) for nm in 'ABC'}
    A = st['A'].node
    w.run(until=T('1/100'))
    fd = dll != 'j1939-21'
    seg = 60 if fd else 7
    L_in = 3 * seg
    pgn_in = 0xD200
    # the inbound session: RTS from B's address, fed to A directly; B itself never sends a data packet
    if fd:
        A_in = lambda ctrl_frame: w.inject(A, tp21.can_id(7, tp22.PF_CM, ADDR['A'], ADDR['B']), ctrl_frame, fd=True)
        A_in(tp22.cm_frame(tp22.RTS, session, L_in, 3, 255, 0, pgn_in))
    else:
        A_in = lambda ctrl_frame: w.inject(A, tp21.can_id(7, 0xEC, ADDR['A'], ADDR['B']), ctrl_frame)
        A_in(tp21.rts(L_in, 255, pgn_in))
    w.run(until=w.now + T(lead))
    # B and C fall silent: A's own sessions stay open (waiting for a CTS) for T3
    for nm in 'BC':
        st[nm].node.silent_from = st[nm].node.sent
    batch = []
    if not fd:
        for j, d in enumerate(['B', 'C']):
            batch.append(('A', d, 'p2p', [(j * 50 + t) % 256 for t in range(20 + j)]))
    else:
        for j in range(8):
            batch.append(('A', 'B' if j % 2 else 'C', 'p2p', [(j * 29 + t) % 256 for t in range(130 + j)]))

    def start(item):
        s, d, kind, p = item
        return st[s].ca.send_pgn(0, 0xD1, ADDR[d], 6, list(p))

    t_batch = w.now
    for item in batch:
        ex.claim('inbound_fail.batch_accepted', start(item) is True, {'dst': item[1], 'length': len(item[3])})
    if end == 'abort':
        w.run(until=w.now + T('1/10'))
        if fd:
            A_in(tp22.cm_frame(tp22.ABORT, session, 0xFFFFFF, 0xFFFFFF, 0xFF, 3, pgn_in))
        else:
            A_in(tp21.abort(3, pgn_in))
        w.run(until=w.now + T('1/10'))
    else:
        # the inbound session times out (T2 = 1.25 s after the CTS) before A's own sessions do (T3 after t_batch)
        w.run(until=T('1/100') + T('1.3'))
    still_open = bool(w.now < t_batch + T('1.2'))
    n1 = len(w.log)
    r = start(('A', 'B', 'p2p', [7] * (200 if fd else 30)))
    info = {'session': session, 'end': end, 'own_sessions_still_open': still_open}
    if still_open:
        ex.claim('inbound_fail.capacity_still_in_use_refused', r is False, info)
        ex.claim('inbound_fail.refusal_emits_nothing', len(w.log) == n1, dict(info, frames=len(w.log) - n1))
    w.run(until=w.now + T(8))
    ex.claim('inbound_fail.job_threads_alive', all(x.alive() for x in st.values()), info)
    for nm in 'BC':
        st[nm].node.silent_from = None
    for x in st.values():
        del x.rx[:]
    full = list(batch)
    for item in full:
        ex.claim('inbound_fail.capacity_afterwards', start(item) is True, dict(info, dst=item[1]))
    w.run(until=w.now + T(8))
    for (s, d, kind, p) in full:
        got = [m for m in st[d].rx if len(m['data']) == len(p) and bool(m['sa'] == ADDR[s])]
        ex.claim('inbound_fail.afterwards_delivered_once', len(got) == 1, dict(info, dst=d, length=len(p), got=len(got)))
    ex.claim('inbound_fail.job_threads_alive_at_end', all(x.alive() for x in st.values()), info)
    ex.witness()


def jobs(tier):
    out = []
    q = tier == 'quick'

    def J(h, wall=600, **p):
        out.append(Job('C10', 'c10:' + h, p, W=40, wall=wall if q else 3000, max_paths=400000, validate=1))

    for dll in ('j1939-21', 'j1939-22'):
        L1, L2 = (20, 15) if dll == 'j1939-21' else (130, 61)
        one = [[['A', 'B', 'p2p', L1]], [['B', 'A', 'p2p', L2]], [['A', 'B', 'bam', L1]], [['B', 'A', 'bam', L2]]]
        for steps in one:
            J('h_history', dll=dll, steps=steps)
            J('h_history', dll=dll, steps=steps, explore=True, windows=[1, 1, 1], wall=900)
        two = [[['A', 'B', 'p2p', L1], ['B', 'A', 'p2p', L2]], [['A', 'B', 'p2p', L2], ['A', 'B', 'p2p', L1]],
               [['B', 'A', 'p2p', L2], ['A', 'C', 'p2p', L2]]]
        if not q:
            two += [[['A', 'B', 'bam', L2], ['A', 'B', 'p2p', L2]], [['C', 'A', 'p2p', L2], ['B', 'A', 'bam', L2]], [['A', 'C', 'p2p', L2], ['C', 'A', 'p2p', L2]]]
            three = [[['A', 'B', 'p2p', L2], ['B', 'A', 'p2p', L2], ['A', 'B', 'p2p', L2]], [['B', 'A', 'p2p', L2], ['C', 'A', 'p2p', L2], ['A', 'B', 'bam', L2]]]
            for steps in three:
                J('h_history', dll=dll, steps=steps, wall=3000)
        for steps in two:
            J('h_history', dll=dll, steps=steps, wall=900)
        # long histories (12; thorough 40 steps): outcomes and fault positions from a fixed rotating schedule, so that every
        # outcome occurs several times at different frames and the J1939-22 session numbers wrap around
        sched = [['clean', 0], ['frame_lost', 1], ['responder_aborts', 2], ['clean', 0], ['originator_silent', 3], ['frame_lost', 4],
                 ['responder_silent', 1], ['originator_aborts', 3], ['frame_lost', 0], ['responder_aborts', 0], ['clean', 0], ['frame_lost', 2],
                 ['originator_silent', 1], ['responder_silent', 3], ['frame_lost', 5], ['originator_aborts', 1], ['frame_lost', 3]]
        dirs = [['A', 'B', 'p2p', L2], ['B', 'A', 'p2p', L2], ['A', 'C', 'p2p', L1], ['A', 'B', 'bam', L2], ['C', 'A', 'p2p', L2], ['B', 'A', 'bam', L2], ['A', 'B', 'p2p', L1]]
        for nsteps in ((12,) if q else (12, 25, 40)):
            J('h_history', dll=dll, steps=[dirs[i % len(dirs)] for i in range(nsteps)], fixed=sched, wall=900)
            if not q:
                J('h_history', dll=dll, steps=[dirs[(i * 3 + 1) % len(dirs)] for i in range(nsteps)], fixed=sched[5:] + sched[:5], wall=900)
        J('h_inbound', dll=dll, n_in=1)
        J('h_inbound', dll=dll, n_in=2)
        J('h_inbound', dll=dll, n_in=2, long_out=True)
        for end in ('timeout', 'abort'):
            for sess in ((0,) if dll == 'j1939-21' else ((0, 7, 9) if q else (0, 1, 3, 7, 8, 9, 15))):
                J('h_inbound_fail', dll=dll, session=sess, end=end)
    return out


def meta(tier):
    return {
        'bounds': ['histories of ' + ('1..2' if tier == 'quick' else '1..3') + ' transfers between three real stacks (listed in jobs()), each with a symbolic outcome from ' + str(OUTCOMES) + ' at a symbolic frame index, each followed by quiescence (7 s)',
                   'afterwards the full advertised concurrency is started at once: J1939-21 all six directed pairs plus one BAM per stack; J1939-22 8 RTS/CTS + 4 BAM from one stack; every message must be accepted and delivered exactly once intact; one call beyond the capacity must be refused without emitting a frame',
                   'inbound sessions (1-2, payload symbolic) in flight while the stack starts its full outbound concurrency after a symbolic number of bus frames, and again after they ended',
                   'long histories of 12' + ('' if tier == 'quick' else ', 25 and 40') + ' transfers with outcomes and fault positions from a fixed rotating schedule (payloads symbolic)',
                   'canonical schedule (no interleaving exploration: C10 quantifies over histories, C01/C02/C06 over schedules)'],
        'outside': ['histories longer than ' + ('2' if tier == 'quick' else '3') + ' with symbolic outcomes, other long histories than the listed ones (supported, not claimed, by the return-to-fresh observation: see observations in this file)', 'other interleavings'],
        'assumptions': [],
    }

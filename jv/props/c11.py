"""C11 -- FD multi-PG packing preserves every group and honours frame and time limits."""
from fractions import Fraction

from j1939.message_id import FrameFormat

from ..ref import ids, tp22
from ..runner import Job
from ..symx import sym_eq_seq, sym_and, sym_or, sym_not, T, STime
from .. import world as W
from .common import Stack, sym_payload, PROTOCOL_PF_FD

A, B, C = 0x10, 0x20, 0x30
EPS = (Fraction(1, 100000), Fraction(2, 1000))
LAT = Fraction(1, 1000)


def h_mpg(ex, calls, ctx='app'):
    """calls: list of [length, 'pdu1'|'pdu2', 'B'|'C'|'G', limit] with limit '0' (immediate), 'sym' (symbolic real in
    [1 ms, 200 ms]) or a rational string; ctx: the calls are issued from the application ('app') or from inside a timer
    callback ('timer')"""
    w = W.World(ex, mode='timed', eps_range=EPS, latency=lambda w_, s, r, i: LAT)
    w.eps_only = ('A',)     # the sender's job thread decides the deadlines; receivers use 0.1 ms
    st = {'A': Stack(w, 'A', A, dll='j1939-22'), 'B': Stack(w, 'B', B, dll='j1939-22'), 'C': Stack(w, 'C', C, dll='j1939-22')}
    sa = st['A']
    w.run(until=T('1/100'))
    groups = []

    def submit():
        for i, call in enumerate(calls):
            L, kind, dst, limit = call[:4]
            # PGN fields and priority symbolic for the first group, concrete and distinct for the others
            # (every symbolic priority / PGN doubles the paths at the frame-priority minimum and at the matching)
            if i == 0:
                dp = ex.fresh_int('g%d_dp' % i, 0, 1)
                prio = 6
            else:
                dp, prio = i % 2, (3 + i) % 8
            fbff = kind.startswith('fbff')
            if kind in ('pdu2', 'fbff'):
                pf = ex.fresh_int('g%d_pf' % i, 240, 255) if i == 0 else 240 + i
                ps = ex.fresh_int('g%d_ge' % i, 0, 255) if i == 0 else 0x10 + i
                if i == 0:
                    ex.assume(sym_not(sym_and(pf >= 241, pf <= 252, ps >= 0x11, ps <= 0x1C)))
                cpgn = dp * 65536 + pf * 256 + ps
                dest = 255
            else:
                if i == 0:
                    pf = ex.fresh_int('g%d_pf' % i, 0, 239)
                    for p in PROTOCOL_PF_FD:
                        ex.assume(pf != p)
                    ex.assume(sym_not(sym_and(pf >= 0xD1, pf <= 0xDC)))
                else:
                    pf = 0xD0 + i
                dest = 255 if dst == 'G' else st[dst].addr
                ps = dest
                cpgn = dp * 65536 + pf * 256
            payload = sym_payload(ex, 'g%d_b' % i, L)
            if limit == '0':
                tl = 0
            elif limit == 'sym':
                tl = ex.fresh_real('g%d_limit' % i, Fraction(1, 1000), Fraction(2, 10))
            else:
                tl = Fraction(limit)
            g = {'i': i, 'L': L, 'cpgn': cpgn, 'dest': dest, 'payload': payload, 'prio': prio, 't': w.now, 'limit': tl, 'kind': kind, 'fbff': fbff}
            if fbff:
                n_before = len(w.log)
                r = sa.ca.send_pgn(dp, pf, ps, prio, list(payload), time_limit=tl, frame_format=FrameFormat.FBFF)
                if kind == 'fbff_p2p':
                    # the base frame format has no destination address: a destination specific group is refused
                    ex.claim('mpg.fbff.destination_specific_refused', r is False and len(w.log) == n_before, {'group': i, 'returned': r})
                    continue
            else:
                r = sa.ca.send_pgn(dp, pf, ps, prio, list(payload), time_limit=tl)
            groups.append(g)
            ex.claim('mpg.accepted', r is True, {'group': i})
            gap = calls[i][4] if len(calls[i]) > 4 else None
            if gap and ctx == 'app':
                w.run(until=w.now + Fraction(gap))

    if ctx == 'app':
        submit()
    else:
        sa.node.ecu.add_timer(Fraction(1, 20), lambda c: (submit(), False)[1])
    w.run(until=w.now + T(1))
    frames = [f for f in w.log if f['src'] == 'A']
    # ---- every emitted frame: legal FD length, <= 64, one destination, decodes to submitted groups
    seen = {}
    for f in frames:
        n = len(f['data'])
        fld = ids.id_fields(f['id'])
        ex.claim('mpg.frame_legal_length', n <= 64 and n in tp22.FD_LENGTHS, {'len': n})
        base_format = f['ext'] is False
        if base_format:
            # FBFF: 11-bit identifier carrying the source address (priority bits not claimed), broadcast by nature
            ex.claim('mpg.fbff.frame_id', sym_and(f['id'] < 2048, f['id'] % 256 == A, f['fd'] is True), {'id': f['id']})
            dst = 255
        else:
            ex.claim('mpg.frame_id', sym_and(fld['pf'] == tp22.PF_MPG, fld['sa'] == A, fld['dp'] == 0, f['fd'] is True))
            dst = int(fld['ps'])
        dec, used = tp22.mpg_decode(f['data'])
        # padding: what follows the last group is skipped by a decoder (TOS 0 header or fewer than 5 bytes)
        prios = []
        for (tos, tf, cpgn, pl) in dec:
            hit = None
            for g in groups:
                if g['i'] in seen or g['dest'] != dst or g['L'] != len(pl) or g['fbff'] != base_format:
                    continue
                if bool(sym_and(cpgn == g['cpgn'], sym_eq_seq(pl, g['payload']))):
                    hit = g
                    break
            ex.claim('mpg.group_in_frame_was_submitted_for_this_destination_and_format', hit is not None, {'dst': dst, 'len': len(pl)})
            if hit is not None:
                seen[hit['i']] = f
                prios.append(hit['prio'])
                ex.claim('mpg.header', sym_and(tos == 2, tf == 0))
                lim = hit['limit']
                if not (isinstance(lim, int) and lim == 0):
                    ex.claim('mpg.time_limit', f['t'] <= hit['t'] + lim + EPS[1], {'group': hit['i'], 'late_by': str(f['t'] - hit['t'])})
                else:
                    ex.claim('mpg.immediate', f['t'] == hit['t'], {'group': hit['i']})
    for g in groups:
        ex.claim('mpg.every_group_on_the_bus', g['i'] in seen, {'group': g['i'], 'L': g['L'], 'frames': len(frames)})
    # ---- end to end: every group delivered exactly once to the addressed applications
    for name in ('B', 'C'):
        s = st[name]
        want = [g for g in groups if (g['dest'] == 255 or g['dest'] == s.addr) and not g['fbff']]      # the stack does not receive FBFF
        got = list(s.rx)
        ex.claim('mpg.delivery_count', len(got) == len(want), {'at': name, 'got': len(got), 'want': len(want)})
        rest = list(got)
        for g in want:
            hit = None
            for m in rest:
                if len(m['data']) == g['L'] and bool(sym_and(m['pgn'] == g['cpgn'], m['sa'] == A, sym_eq_seq(m['data'], g['payload']))):
                    hit = m
                    break
            ex.claim('mpg.delivered_once_intact', hit is not None, {'at': name, 'group': g['i'], 'L': g['L']})
            if hit is not None:
                rest.remove(hit)
    ex.claim('mpg.frame_handlers_return', all(s.node.hung is None for s in st.values()), {'hung': [s.node.hung for s in st.values() if s.node.hung]})
    ex.claim('job_threads_alive', all(s.alive() for s in st.values()), {'dead': [repr(s.node.dead) for s in st.values() if s.node.dead]})
    ex.observe('frames', [[f['id'], f['data']] for f in frames])
    ex.witness()


BOUND = [1, 8, 27, 28, 29, 52, 56, 59, 60]


def jobs(tier):
    out = []
    q = tier == 'quick'

    def J(calls, ctx='app', wall=300):
        out.append(Job('C11', 'c11:h_mpg', {'calls': calls, 'ctx': ctx}, W=40, wall=wall if q else 1800, max_paths=50000, validate=1))

    Ls = BOUND if q else list(range(1, 61))
    for L in Ls:
        J([[L, 'pdu1', 'B', '0']])
        J([[L, 'pdu2', 'G', 'sym']])
        J([[L, 'fbff', 'G', '0']])
        J([[L, 'fbff_p2p', 'B', '0'], [L, 'fbff', 'G', 'sym']])
    for L1 in Ls:
        for L2 in Ls:
            J([[L1, 'pdu1', 'B', 'sym'], [L2, 'pdu1', 'B', 'sym']])
    for (L1, L2) in [(8, 8), (28, 28), (30, 26), (30, 27), (60, 1), (1, 60)]:
        J([[L1, 'pdu1', 'B', 'sym'], [L2, 'pdu1', 'C', 'sym']])
        J([[L1, 'pdu1', 'B', 'sym'], [L2, 'pdu2', 'G', 'sym']])
        J([[L1, 'pdu1', 'G', 'sym'], [L2, 'pdu2', 'G', 'sym']])
        J([[L1, 'pdu1', 'B', '1/10'], [L2, 'pdu1', 'B', '0']])
        J([[L1, 'pdu1', 'B', 'sym', '1/50'], [L2, 'pdu1', 'B', 'sym']])
        J([[L1, 'pdu1', 'B', 'sym'], [L2, 'pdu1', 'B', 'sym']], ctx='timer')
        # base frame format (FBFF): broadcast groups only, never combined with extended-format groups
        J([[L1, 'fbff', 'G', 'sym'], [L2, 'fbff', 'G', 'sym']])
        J([[L1, 'fbff', 'G', 'sym'], [L2, 'pdu2', 'G', 'sym']])
        J([[L1, 'pdu2', 'G', 'sym'], [L2, 'fbff', 'G', '0']])
    tri = [1, 8, 28, 29, 56, 60] if q else BOUND
    for L1 in tri:
        for L2 in tri:
            for L3 in (tri if not q else [1, 8, 28, 60]):
                J([[L1, 'pdu1', 'B', 'sym'], [L2, 'pdu1', 'B', 'sym'], [L3, 'pdu1', 'B', 'sym']])
    if not q:
        for combo in [(8,) * 8, (8, 8, 8, 8, 8, 8, 8, 4), (20, 20, 20, 20), (1,) * 12, (60, 60, 60), (5, 50, 5, 50), (30, 28, 8, 8, 8)]:
            # long sequences: symbolic limits for the first four groups, a concrete mix for the others
            lim = lambda i: 'sym' if (i < 4 or len(combo) <= 5) else ['1/20', '1/100', '1/10', '3/100', '1/5'][i % 5]
            J([[L, 'pdu1', 'B', lim(i)] for i, L in enumerate(combo)])
            J([[L, 'pdu1', 'B' if i % 2 else 'C', lim(i)] for i, L in enumerate(combo)])
    return out


def meta(tier):
    return {
        'bounds': ['sequences of 1..3 send_pgn calls (thorough: selected sequences up to 12) with lengths from ' + (str(BOUND) if tier == 'quick' else '1..60 (all 60x60 pairs)') + ' ; payload bytes, priority, data page, PDU format / group extension symbolic',
                   'time_limit 0 or a symbolic real in [1 ms, 200 ms]; scheduling latency of every wake-up symbolic 10 us..2 ms; bus latency 1 ms',
                   'destinations B, C, global; PDU1 and PDU2 groups; extended (FEFF) and base (FBFF) frame format - FBFF frames judged by the reference decoder only; submitted from the application and from inside a timer callback; job thread in its idle sleep at submission',
                   'every FD frame decoded by the reference multi-PG decoder jv/ref/tp22.py'],
        'outside': ['priority bits of the FBFF identifier (the stack always sends priority 0)', 'sequences longer than listed', 'tos / trailer formats other than 2 / 0'],
        'assumptions': ['FD reference written without the J1939-22 text at hand: limited to header layout (TOS/TF/CPGN/length), 4-byte header accounting, legal FD lengths'],
    }

"""C12 -- timers fire when due and callback registrations mean what they say."""
import itertools
from fractions import Fraction

from ..runner import Job
from ..symx import sym_and, sym_or, sym_not, T, STime
from .. import world as W

EPS = (Fraction(1, 100000), Fraction(4, 10000))     # scheduling latency of a wake-up: 10 us .. 0.4 ms
GRID = {'1ms': Fraction(1, 1000), '10ms': Fraction(1, 100), '100ms': Fraction(1, 10), '300ms': Fraction(3, 10),
        '1s': Fraction(1), '3s': Fraction(3)}


class Reg:
    """one callable; may be registered several times"""

    def __init__(self, ex, w, name, periodic):
        self.ex, self.w, self.name = ex, w, name
        self.periodic = periodic      # True / False / 'sym' (fresh symbolic return value per call)
        self.calls = []               # instants
        self.regs = []                # (instant of add_timer, delta) in registration order
        self.removed_at = None
        self.on_call = None           # extra action executed inside the callback (issuing context = timer)
        self.rets = []
        self.past = []                # closed epochs: the callable was removed and registered again later

    def new_epoch(self):
        ep = Reg.__new__(Reg)
        ep.name, ep.periodic = self.name + '#%d' % (len(self.past) + 1), self.periodic
        ep.calls, ep.regs, ep.rets = self.calls, self.regs, self.rets
        ep.removed_at, ep.calls_at_removal = self.removed_at, self.calls_at_removal
        self.past.append(ep)
        self.calls, self.regs, self.rets, self.removed_at = [], [], [], None

    def __call__(self, cookie):
        self.w.callback_fired()
        self.calls.append(self.w.now)
        if self.on_call is not None:
            act, self.on_call = self.on_call, None
            act()
        if self.periodic == 'sym':
            r = self.ex.fresh_bool('ret_' + self.name)
            r = bool(r)
        else:
            r = self.periodic
        self.rets.append(r)
        return r

    def tick(self, cookie):
        return self(cookie)


def h_timers(ex, ops, horizon=None, bound=False):
    """ops: list of [at, op, who, arg]:  at = offset (grid key) after the previous op;
         op 'add' (arg = period key, who = callable name, suffix '+' periodic, '-' one-shot, '?' symbolic)
            'rm'  (remove_timer(who))
            'add@' / 'rm@' : the operation is issued from inside the next call of callable arg2
    bound: the callable handed to add_timer / remove_timer is a bound method looked up anew for every call
           (obj.tick == obj.tick but obj.tick is not obj.tick), as ControllerApplication and Dm1 do internally"""
    w = W.World(ex, mode='timed', eps_range=EPS)
    n = w.add_node('E')
    ecu = n.ecu
    regs = {}
    if horizon is None:
        ps = [GRID[o[3]] for o in ops if len(o) > 3 and o[3]]
        horizon = str(min(Fraction(2), 6 * max(ps), 40 * min(ps)))

    def get(name):
        if name not in regs:
            kind = name[-1]
            # '2' / 'n': truthy-but-not-True and None return values: 'otherwise never again'
            regs[name] = Reg(ex, w, name, {'+': True, '-': False, '?': 'sym', '2': 2, 'n': None}[kind])
        return regs[name]

    def do_add(r, delta):
        if r.removed_at is not None:
            r.new_epoch()             # removed and registered again: the calls of the new registration are judged on their own
        r.regs.append((w.now, delta))
        ecu.add_timer(delta, r.tick if bound else r)

    def do_rm(r):
        ecu.remove_timer(r.tick if bound else r)
        r.removed_at = w.now
        r.calls_at_removal = len(r.calls)

    w.run(until=T('1/100'))
    for i, op in enumerate(ops):
        gap = ex.fresh_real('gap%d' % i, GRID[op[0]], GRID[op[0]] + Fraction(1, 2000)) if op[0] != '0' else T(0)
        w.run(until=w.now + gap)
        kind = op[1]
        r = get(op[2])
        if kind == 'add':
            do_add(r, GRID[op[3]])
        elif kind == 'rm':
            do_rm(r)
        elif kind == 'add@':
            get(op[4]).on_call = (lambda r=r, d=GRID[op[3]]: do_add(r, d))
        elif kind == 'rm@':
            get(op[4]).on_call = (lambda r=r: do_rm(r))
    w.run(until=w.now + T(horizon))
    end = w.now
    emax = EPS[1]

    def tsorted(xs):
        out = []
        for x in xs:
            i = len(out)
            while i > 0 and bool(x < out[i - 1]):
                i -= 1
            out.insert(i, x)
        return out

    epochs = []
    for name, r in sorted(regs.items()):
        epochs += [(ep.name, ep) for ep in r.past] + [(name, r)]
    for name, r in epochs:
        if not r.regs:
            continue
        info = {'callable': name, 'calls': len(r.calls), 'registrations': len(r.regs)}
        cutoff = r.removed_at if r.removed_at is not None else end
        if r.removed_at is not None:
            ex.claim('no_call_after_remove', len(r.calls) == r.calls_at_removal, info)
        calls = r.calls if r.removed_at is None else r.calls[:r.calls_at_removal]
        if r.periodic == 'sym':
            # one registration; the returned values decide how long the chain is
            t0, delta = r.regs[0]
            for k, c in enumerate(calls, 1):
                due = t0 + delta * k
                ex.claim('call_window', sym_and(c >= due, c <= due + emax), dict(info, k=k))
            stopped = None
            for k, ret in enumerate(r.rets, 1):
                if not ret:
                    stopped = k
                    break
            if stopped is not None:
                ex.claim('one_shot_never_again', len(r.calls) == stopped, info)
            else:
                nxt = t0 + delta * (len(calls) + 1)
                ex.claim('periodic_keeps_firing', sym_not(nxt + emax < cutoff), info)
            continue
        must, may = [], 0
        for (t0, delta) in r.regs:
            k = 1
            while k < 5000:
                due = t0 + delta * k
                if bool(due + emax < cutoff):
                    must.append(due)
                else:
                    if bool(due <= cutoff):
                        may += 1
                    break
                if r.periodic is not True:
                    break
                k += 1
        must = tsorted(must)
        ex.claim('call_count', len(must) <= len(calls) <= len(must) + may, dict(info, must=len(must), may=may))
        for k, (c, due) in enumerate(zip(calls, must), 1):
            ex.claim('call_window', sym_and(c >= due, c <= due + emax), dict(info, k=k))
    ex.claim('job_thread_alive', n.job_alive())
    ex.observe('calls', [[name, [c for c in r.calls]] for name, r in sorted(regs.items())])
    ex.witness()


def h_overrun(ex, period='300ms', slow_at='100ms', slow_for='7/10', horizon='5/2'):
    """a callback that keeps the job thread busy for longer than another timer's period: the periodic timer is
    serviced late once and is then back on its registration grid (no accumulated drift)"""
    w = W.World(ex, mode='timed', eps_range=EPS)
    n = w.add_node('E')
    ecu = n.ecu
    w.run(until=T('1/100'))
    delta = GRID[period]
    calls = []
    busy = []

    def periodic(cookie):
        w.callback_fired()
        calls.append(w.now)
        return True

    def slow(cookie):
        w.callback_fired()
        t_in = w.now
        w.run(until=w.now + Fraction(slow_for))     # the job thread is busy in this callback
        busy.append((t_in, w.now))
        return False

    t0 = w.now
    ecu.add_timer(delta, periodic)
    ecu.add_timer(GRID[slow_at], slow)
    w.run(until=w.now + Fraction(horizon))
    emax = EPS[1]
    ex.claim('overrun.slow_callback_ran', len(busy) == 1)
    if busy:
        t_in, t_out = busy[0]
        nmax = int(Fraction(horizon) / delta) + 2
        for c in calls:
            if bool(c > t_out + emax):
                # after the overrun every call lies on the registration grid again
                on_grid = sym_or(*[sym_and(c >= t0 + delta * k, c <= t0 + delta * k + emax) for k in range(1, nmax)])
                ex.claim('overrun.back_on_the_grid', on_grid, {'period': period, 'slow_for': slow_for, 'calls': len(calls)})
        late = [c for c in calls if bool(c > t_out + emax)]
        expected_after = [k for k in range(1, nmax) if bool(t0 + delta * k > t_out + emax) and bool(t0 + delta * k + emax < t0 + Fraction(horizon))]
        ex.claim('overrun.no_call_lost_after_overrun', len(late) >= len(expected_after), {'after': len(late), 'expected': len(expected_after)})
    ex.claim('job_thread_alive', n.job_alive())
    ex.observe('calls', calls)
    ex.witness()


def h_subs(ex, pattern, bound=False):
    """subscribe / unsubscribe with duplicates: after unsubscribe(cb) returns cb is never called again.
    pattern: list of callable names registered in order, e.g. ['a','a','b','a']; then 'a' is unsubscribed."""
    w = W.World(ex, mode='interleave')
    n = w.add_node('E')
    ecu = n.ecu
    counts = {}
    cbs = {}
    class Sub:
        def __init__(self, name):
            self.name = name

        def on_message(self, prio, pgn, sa, ts, data):
            w.callback_fired()
            counts[self.name] = counts.get(self.name, 0) + 1

    class Look(dict):
        # bound: every lookup yields a new, equal bound method object
        def __getitem__(self, k):
            v = dict.__getitem__(self, k)
            return v.on_message if bound else v
    cbs = Look()
    for name in pattern:
        if name not in cbs:
            if bound:
                cbs[name] = Sub(name)
            else:
                def cb(prio, pgn, sa, ts, data, name=name):
                    w.callback_fired()
                    counts[name] = counts.get(name, 0) + 1
                cbs[name] = cb
        ecu.subscribe(cbs[name])
    pf = ex.fresh_int('pf', 240, 255)
    ge = ex.fresh_int('ge', 0, 255)
    cid = (6 << 26) | (pf << 16) | (ge << 8) | 0x42
    w.inject(n, cid, [1, 2, 3])
    for name in cbs:
        ex.claim('subscribed_called', counts.get(name, 0) == pattern.count(name), {'callable': name})
    ecu.unsubscribe(cbs['a'])
    before = dict(counts)
    w.inject(n, cid, [4, 5, 6])
    ex.claim('no_call_after_unsubscribe', counts.get('a', 0) == before.get('a', 0),
             {'callable': 'a', 'registrations': pattern.count('a')})
    for name in cbs:
        if name != 'a':
            ex.claim('others_unaffected', counts.get(name, 0) == before.get(name, 0) + pattern.count(name), {'callable': name})
    ex.observe('counts', sorted(counts.items()))
    ex.witness()


def _histories(tier):
    H = []
    # single timers
    for p in ('1ms', '10ms', '300ms', '1s'):
        H.append([['0', 'add', 'p+', p]])
        H.append([['0', 'add', 'o-', p]])
        H.append([['0', 'add', 's?', p]])
    # two timers, both orders of one-shot / periodic, equal and different periods
    for p1, p2 in (('300ms', '100ms'), ('100ms', '300ms'), ('100ms', '100ms'), ('10ms', '1s')):
        H.append([['0', 'add', 'a+', p1], ['0', 'add', 'b+', p2]])
        H.append([['0', 'add', 'o-', p1], ['0', 'add', 'p+', p2]])
        H.append([['0', 'add', 'p+', p1], ['0', 'add', 'o-', p2]])
        H.append([['0', 'add', 'o-', p1], ['10ms', 'add', 'p+', p2]])
        H.append([['0', 'add', 'a-', p1], ['0', 'add', 'b-', p2]])
    # removal, duplicates
    H.append([['0', 'add', 'p+', '100ms'], ['300ms', 'rm', 'p+']])
    H.append([['0', 'add', 'p+', '100ms'], ['0', 'add', 'p+', '100ms'], ['300ms', 'rm', 'p+']])
    H.append([['0', 'add', 'p+', '100ms'], ['0', 'add', 'p+', '300ms'], ['0', 'add', 'p+', '1s'], ['10ms', 'rm', 'p+']])
    H.append([['0', 'add', 'a+', '100ms'], ['0', 'add', 'p+', '100ms'], ['0', 'add', 'p+', '100ms'], ['0', 'add', 'b+', '100ms'], ['300ms', 'rm', 'p+']])
    H.append([['0', 'add', 'a+', '100ms'], ['0', 'add', 'b+', '300ms'], ['100ms', 'rm', 'a+']])
    # return values other than True / False
    H.append([['0', 'add', 'x2', '100ms'], ['0', 'add', 'p+', '300ms']])
    H.append([['0', 'add', 'yn', '100ms'], ['0', 'add', 'x2', '10ms']])
    # operations issued from inside a timer callback
    H.append([['0', 'add', 'a+', '100ms'], ['0', 'add', 'b+', '100ms'], ['0', 'rm@', 'b+', None, 'a+']])
    H.append([['0', 'add', 'a+', '100ms'], ['0', 'add', 'b+', '300ms'], ['0', 'rm@', 'b+', None, 'a+']])
    H.append([['0', 'add', 'a+', '100ms'], ['0', 'add@', 'b+', '10ms', 'a+']])
    H.append([['0', 'add', 'o-', '100ms'], ['0', 'add@', 'p+', '100ms', 'o-'], ['0', 'add', 'q+', '300ms']])
    H.append([['0', 'add', 'a+', '100ms'], ['0', 'add', 'b-', '100ms'], ['0', 'add', 'c+', '100ms'], ['0', 'rm@', 'c+', None, 'a+']])
    # long histories (8..12 operations): duplicates, removal, registration of the same callable again after its removal,
    # operations from inside callbacks
    LONG = [
        [['0', 'add', 'a+', '100ms'], ['0', 'add', 'b-', '300ms'], ['10ms', 'add', 'c+', '300ms'], ['0', 'add', 'a+', '1s'], ['100ms', 'rm', 'b-'],
         ['0', 'add', 'd-', '100ms'], ['300ms', 'rm', 'a+'], ['0', 'add', 'e+', '300ms'], ['10ms', 'add', 'b-', '100ms'], ['100ms', 'rm', 'c+'],
         ['0', 'add', 'a+', '300ms'], ['300ms', 'rm', 'e+']],
        [['0', 'add', 'a+', '300ms'], ['0', 'add', 'a+', '300ms'], ['0', 'add', 'b+', '100ms'], ['100ms', 'rm', 'a+'], ['0', 'add', 'a+', '100ms'],
         ['0', 'add', 'c-', '300ms'], ['300ms', 'rm', 'b+'], ['10ms', 'add', 'b+', '300ms']],
        [['0', 'add', 'a+', '100ms'], ['0', 'add', 'b+', '100ms'], ['0', 'add', 'c+', '100ms'], ['0', 'rm@', 'c+', None, 'a+'], ['300ms', 'add', 'c+', '300ms'],
         ['0', 'add@', 'd-', '100ms', 'b+'], ['100ms', 'rm', 'a+'], ['0', 'add', 'e-', '10ms'], ['10ms', 'rm', 'b+'], ['0', 'add', 'a+', '300ms']],
        [['0', 'add', 'o-', '10ms'], ['0', 'add', 'p+', '100ms'], ['10ms', 'add', 'o-', '100ms'], ['100ms', 'add', 'q+', '300ms'], ['0', 'rm', 'p+'],
         ['0', 'add', 'p+', '300ms'], ['10ms', 'add', 'r-', '300ms'], ['300ms', 'rm', 'q+'], ['0', 'rm', 'p+']],
    ]
    H += LONG[:1] if tier == 'quick' else LONG
    if tier != 'quick':
        names = [('a+', '100ms'), ('b-', '100ms'), ('c+', '300ms'), ('d-', '300ms'), ('e?', '100ms')]
        for k in (3, 4):
            for combo in itertools.permutations(names, k):
                H.append([['0', 'add', nm, p] for nm, p in combo])
        for combo in itertools.permutations(names[:4], 3):
            H.append([['0', 'add', nm, p] for nm, p in combo] + [['300ms', 'rm', combo[1][0]]])
            H.append([['0', 'add', nm, p] for nm, p in combo] + [['0', 'add', combo[0][0], '1s'], ['10ms', 'rm', combo[0][0]]])
    return H


def jobs(tier):
    out = []
    for ops in _histories(tier):
        params = {'ops': ops}
        if (tier == 'quick' and (len(ops) >= 4 or any(o[1] == 'add@' for o in ops))) or len(ops) >= 8:
            params['horizon'] = '1/2'       # many coinciding deadlines: each one forks on the latencies
            if any(o[1] == 'add@' and o[3] == '10ms' for o in ops):
                params['horizon'] = '11/50'  # a 10 ms timer: every call adds a symbolic latency to all later queries
        out.append(Job('C12', 'c12:h_timers', params, W=40, wall=120 if tier == 'quick' else 900, max_paths=20000, validate=1))
        if any(o[1] in ('rm', 'rm@') for o in ops) and (tier != 'quick' or len(ops) <= 5):
            out.append(Job('C12', 'c12:h_timers', dict(params, bound=True), W=40, wall=120 if tier == 'quick' else 900, max_paths=20000, validate=1))
    out.append(Job('C12', 'c12:h_overrun', {}, W=40, wall=300, validate=1))
    out.append(Job('C12', 'c12:h_overrun', {'period': '100ms', 'slow_at': '300ms', 'slow_for': '11/20', 'horizon': '3/2'}, W=40, wall=300, validate=1))
    pats = [['a'], ['a', 'a'], ['a', 'b', 'a'], ['b', 'a', 'a', 'b'], ['a', 'a', 'a'], ['a', 'a', 'a', 'a', 'b']]
    if tier != 'quick':
        pats += [list(p) for n in (3, 4, 5) for p in itertools.product('ab', repeat=n) if 'a' in p]
    seen = set()
    for p in pats:
        if tuple(p) in seen:
            continue
        seen.add(tuple(p))
        out.append(Job('C12', 'c12:h_subs', {'pattern': p}, W=40, wall=60, validate=1))
        if len(p) <= 4:
            out.append(Job('C12', 'c12:h_subs', {'pattern': p, 'bound': True}, W=40, wall=60, validate=1))
    return out


def meta(tier):
    return {
        'bounds': ['histories of 1..5 add_timer/remove_timer operations from the list in jv/props/c12.py (_histories), plus ' + ('one 12-operation history' if tier == 'quick' else 'four histories of 8..12 operations') + ' (duplicates, removal, re-registration after removal, operations from inside callbacks); periods from {1,10,100,300 ms,1 s}',
                   'scheduling latency of every wake-up: fresh symbolic real in [10 us, 0.4 ms]; gaps between operations: symbolic real in [g, g+0.5 ms] for grid value g',
                   'callback return value: True / False / fresh symbolic bool per call; callables given as the same object, and as bound methods looked up anew for every add / remove / subscribe / unsubscribe call',
                   'subscribe/unsubscribe: registration patterns over two callables with 1..5 entries, PDU2 frame with symbolic PF/GE',
                   'horizon 2 s after the last operation'],
        'outside': ['histories of more than 5 operations other than the listed long ones', 'periods shorter than the scheduling latency', 'callbacks that take time (except the overrun shape: one callback busy for 0.55 / 0.7 s next to a 100 / 300 ms periodic timer)'],
        'assumptions': ['callbacks are instantaneous in virtual time'],
    }

"""C13 -- a controller application sends application data only from an address it holds."""
import j1939
from fractions import Fraction

from ..ref import ids
from ..runner import Job
from ..symx import sym_eq_seq, sym_and, sym_or, sym_not, T
from .. import world as W
from .common import make_ca, CA_STATES, sym_payload

ST = j1939.ControllerApplication.State
ENTRIES = ('send_message', 'send_pgn', 'send_pgn_long', 'send_request', 'dm22', 'dm11', 'dm14_read', 'dm14_write', 'dm1_timer')


def h_send(ex, state, entry, addr=128, dll='j1939-21', sym_contender=False):
    w = W.World(ex, mode='interleave')
    n = w.add_node('S', dll=dll)
    ca, held = make_ca(w, n, state, addr, ident=77, ex=ex if sym_contender else None)
    operational = held is not None
    base = len(w.log)
    prio = ex.fresh_int('prio', 0, 7)
    dp = ex.fresh_int('dp', 0, 1)
    pf = ex.fresh_int('pf', 0, 255)
    ps = ex.fresh_int('ps', 0, 255)
    raised = None
    t_call = w.now
    try:
        if entry == 'send_message':
            ca.send_message(prio, dp * 65536 + pf * 256 + ps, sym_payload(ex, 'b', 8))
        elif entry == 'send_pgn':
            ca.send_pgn(dp, pf, ps, prio, sym_payload(ex, 'b', 5))
        elif entry == 'send_pgn_long':
            ca.send_pgn(dp, pf, ps, prio, sym_payload(ex, 'b', 12))
        elif entry == 'send_pgn_limit':
            # J1939-22: the group waits in a multi-PG buffer and is sent by the job thread when its time limit expires
            ca.send_pgn(dp, pf, ps, prio, sym_payload(ex, 'b', 6), time_limit=Fraction(1, 50))
            w.run(until=w.now + T('1/10'))
        elif entry == 'send_request':
            ca.send_request(0, dp * 65536 + pf * 256 + ps, ex.fresh_int('dest', 0, 255))
        elif entry == 'dm22':
            j1939.Dm22(ca).request_clear_act_dtc(ex.fresh_int('dest', 0, 255), ex.fresh_int('spn', 0, (1 << 19) - 1), ex.fresh_int('fmi', 0, 31))
        elif entry == 'dm11':
            j1939.Dm11(ca).request_clear_all(ex.fresh_int('dest', 0, 255))
        elif entry == 'dm14_read':
            j1939.Dm14Query(ca).read(0x42, 1, ex.fresh_int('ptr', 0, (1 << 32) - 1), 2, max_timeout=0.05)
        elif entry == 'dm14_write':
            j1939.Dm14Query(ca).write(0x42, 1, ex.fresh_int('ptr', 0, (1 << 32) - 1), [ex.fresh_int('val', 0, 255)], max_timeout=0.05)
        elif entry == 'dm1_timer':
            j1939.Dm1(ca).start_send(lambda: ({'pl': 1}, [{'spn': ex.fresh_int('spn', 0, (1 << 19) - 1), 'fmi': 3, 'oc': 1}]), cycletime=0.05)
            w.run(until=w.now + T('2/10'))
    except RuntimeError as e:
        raised = e
    w.run(until=w.now + T('3/10'))
    new = w.log[base:]
    info = {'state': state, 'entry': entry, 'frames': len(new), 'raised': repr(raised)}
    if not operational:
        # allowed while not operational: claims / cannot-claim (PF EE) and a request for address claim from SA 254
        app = []
        for f in new:
            fld = ids.id_fields(f['id'])
            is_claim = fld['pf'] == 0xEE
            is_req_claim = sym_and(fld['pf'] == 0xEA, fld['sa'] == 254, len(f['data']) == 3,
                                   sym_eq_seq(f['data'], [0x00, 0xEE, 0x00]))
            if dll != 'j1939-21' and bool(fld['pf'] == 0x25):
                # J1939-22 wraps the request into a multi-PG frame: one contained group, PGN 0xEA00, data 00 EE 00
                from ..ref import tp22
                dec, _ = tp22.mpg_decode(f['data'])
                is_req_claim = sym_and(fld['sa'] == 254, len(dec) == 1, *( [dec[0][2] == 0xEA00, len(dec[0][3]) == 3, sym_eq_seq(dec[0][3], [0x00, 0xEE, 0x00])] if len(dec) == 1 else [False]))
            ex.claim('no_application_frame_without_address', sym_or(is_claim, is_req_claim), dict(info, id=f['id']))
        if entry == 'dm1_timer':
            pass    # the timer context cannot raise to the application
        elif entry == 'send_request':
            # raises unless it is the request for address claim
            sent_req = [f for f in new if bool(ids.id_fields(f['id'])['pf'] == (0xEA if dll == 'j1939-21' else 0x25))]
            ex.claim('raises_without_address', (raised is not None) != (len(sent_req) > 0), info)
        else:
            ex.claim('raises_without_address', raised is not None, info)
    else:
        ex.claim('no_exception_when_operational', raised is None or entry.startswith('dm14'), info)
        ex.claim('state_still_normal', ca.state == ST.NORMAL and ca.device_address == held, info)
        for f in new:
            fld = ids.id_fields(f['id'])
            ex.claim('source_is_held_address', fld['sa'] == held, dict(info, id=f['id'], held=held))
        if entry in ('send_message', 'send_pgn', 'send_pgn_long', 'send_pgn_limit', 'send_request', 'dm22', 'dm11'):
            ex.claim('something_sent', len(new) >= 1, info)
    ex.observe('frames', [[f['id'], f['data']] for f in new])
    ex.observe('raised', raised is not None)
    ex.witness()


def h_send_reentrant(ex, scene, addr, entry='send_pgn'):
    """a send entry point is exercised WHILE the CA is inside the send call of one of its own claim frames (a reply or
    request handled before that call returns, or another application thread): whatever goes out carries the address the CA is
    entitled to at that moment - nothing from 254, nothing during a veto wait.
    scene: 'start' (first claim) | 'lose_aac' (operational arbitrary-address-capable CA loses: claim for the next address)
           | 'lose_fixed' (operational fixed CA loses: cannot-claim frame)"""
    w = W.World(ex, mode='interleave')
    n = w.add_node('S')
    aac = scene == 'lose_aac'
    name = j1939.Name(arbitrary_address_capable=1 if aac else 0, industry_group=2, function=130, manufacturer_code=700, identity_number=77)
    ca = j1939.ControllerApplication(name, addr)
    n.ecu.add_ca(controller_application=ca)
    attempts = []
    armed = {'on': scene == 'start'}
    prio = ex.fresh_int('prio', 0, 7)
    pf = ex.fresh_int('pf', 0, 255)
    ps = ex.fresh_int('ps', 0, 255)

    def hook(f):
        fld = ids.id_fields(f['id'])
        if f['src'] != 'S' or not armed['on'] or not bool(fld['pf'] == 0xEE) or hook.busy:
            return
        hook.busy = True
        k = len(w.log)
        raised = None
        try:
            if entry == 'send_pgn':
                ca.send_pgn(0, pf, ps, prio, sym_payload(ex, 'b', 5))
            elif entry == 'send_message':
                ca.send_message(prio, pf * 256 + ps, sym_payload(ex, 'b', 8))
            else:
                ca.send_request(0, pf * 256 + ps, ex.fresh_int('dest', 0, 255))
        except RuntimeError as e:
            raised = e
        attempts.append({'claim_sa': int(fld['sa']), 'raised': raised, 'frames': w.log[k:]})
        hook.busy = False
    hook.busy = False
    w.frame_hooks.append(hook)
    ca.start(0.01)
    w.run(until=w.now + T('8/10'))
    if scene != 'start':
        armed['on'] = True
        low = j1939.Name(arbitrary_address_capable=0, identity_number=1).value
        w.inject(n, (6 << 26) | (0xEE << 16) | (0xFF << 8) | addr, ids.name_bytes(low))
        w.run(until=w.now + T('8/10'))
    ex.claim('reentrant.scene_reached', len(attempts) >= 1, {'scene': scene, 'attempts': len(attempts)})
    for a in attempts:
        info = {'scene': scene, 'entry': entry, 'claim_from': a['claim_sa'], 'raised': a['raised'] is not None, 'frames': len(a['frames'])}
        entitled_now = a['claim_sa'] != 254 and not 128 <= a['claim_sa'] <= 247     # immediate range: operational at once
        for f in a['frames']:
            fld = ids.id_fields(f['id'])
            is_req_claim = sym_and(fld['sa'] == 254, fld['pf'] == 0xEA, len(f['data']) == 3, sym_eq_seq(f['data'], [0x00, 0xEE, 0x00]))
            if entitled_now:
                ex.claim('reentrant.source_is_the_claimed_address', sym_or(fld['sa'] == a['claim_sa'], is_req_claim), dict(info, id=f['id']))
            else:
                ex.claim('reentrant.no_application_frame_without_address', is_req_claim, dict(info, id=f['id']))
        if not entitled_now and entry != 'send_request':
            ex.claim('reentrant.raises_without_address', a['raised'] is not None, info)
    ex.witness()


def jobs(tier):
    out = []
    for state in CA_STATES:
        addr = 10 if state == 'normal_immediate' else 128
        for entry in ENTRIES:
            out.append(Job('C13', 'c13:h_send', {'state': state, 'entry': entry, 'addr': addr}, W=40, wall=120, validate=1))
    for addr0 in (0, 253):
        for state in ('normal_immediate', 'cannot_claim', 'bypassed'):
            for entry in ('send_pgn', 'send_message', 'send_request', 'dm22'):
                out.append(Job('C13', 'c13:h_send', {'state': state, 'entry': entry, 'addr': addr0}, W=40, wall=120, validate=1))
    # arbitrary-address-capable CAs losing an address whose successor is in the immediate range (100 -> 101, 252 -> 253)
    for addr0 in (100, 252):
        for state in ('lost_waiting', 'moved', 'moved_lost_waiting') + (('moved_twice',) if addr0 == 100 else ()):
            for entry in ('send_pgn', 'send_message', 'send_request'):
                out.append(Job('C13', 'c13:h_send', {'state': state, 'entry': entry, 'addr': addr0}, W=40, wall=120, validate=1))
    # a send entry point exercised while the CA is inside the send call of one of its own claim frames
    for scene, addr in (('start', 128), ('start', 10), ('lose_aac', 128), ('lose_aac', 100), ('lose_fixed', 128), ('lose_fixed', 10)):
        for entry in ('send_pgn', 'send_message', 'send_request'):
            out.append(Job('C13', 'c13:h_send_reentrant', {'scene': scene, 'addr': addr, 'entry': entry}, W=40, wall=120, validate=1))
    # the contender that takes the address away has a symbolic NAME (any value lower than ours)
    for state in ('lost_waiting', 'moved', 'moved_lost_waiting', 'moved_twice', 'cannot_claim'):
        for entry in ('send_pgn', 'send_message', 'send_request'):
            out.append(Job('C13', 'c13:h_send', {'state': state, 'entry': entry, 'addr': 128, 'sym_contender': True}, W=96, wall=300, validate=1))
    if True:
        for state in CA_STATES:
            for entry in ('send_pgn', 'send_pgn_long', 'send_request', 'send_pgn_limit'):
                out.append(Job('C13', 'c13:h_send', {'state': state, 'entry': entry, 'addr': 10 if state == 'normal_immediate' else 200, 'dll': 'j1939-22'}, W=40, wall=120, validate=1))
    if tier != 'quick':
        # every history x every entry point on more preferred addresses, both data link layers
        seen = set((j.params['state'], j.params['entry'], j.params['addr'], j.params.get('dll', 'j1939-21')) for j in out if 'state' in j.params and not j.params.get('sym_contender'))
        for dll in ('j1939-21', 'j1939-22'):
            for addr in (0, 1, 100, 127, 128, 200, 246, 247, 251, 252):
                for state in CA_STATES:
                    hops = {'moved': 1, 'moved_lost_waiting': 1, 'moved_twice': 2, 'bypassed_moved': 1, 'vetoed_moved': 1}.get(state, 0)
                    if addr + hops > 253:
                        continue
                    if state == 'wait_veto' and not 128 <= addr <= 247:
                        continue    # no veto time in the immediate range: that history is 'normal_immediate'
                    for entry in (ENTRIES if dll == 'j1939-21' else ('send_pgn', 'send_pgn_long', 'send_request', 'send_message')):
                        key = (state, entry, addr, dll)
                        if key in seen:
                            continue
                        seen.add(key)
                        p = {'state': state, 'entry': entry, 'addr': addr}
                        if dll != 'j1939-21':
                            p['dll'] = dll
                        out.append(Job('C13', 'c13:h_send', p, W=40, wall=120, validate=1))
    return out


def meta(tier):
    return {
        'bounds': ['claim histories ' + str(CA_STATES) + ' reached by the real claim procedure (contending claims injected with a lower NAME)',
                   'entry points ' + str(ENTRIES) + '; PGN (data page, PDU format, PDU specific), priority, destination, payload, SPN/FMI, pointer symbolic',
                   'preferred address 128 (veto range) / 10 (immediate range); 0, 100, 252, 253 for selected histories' + ('' if tier == 'quick' else '; thorough: every history x entry point on 0, 1, 100, 127, 128, 200, 246, 247, 251, 252, both data link layers') + ',', 'NAME of the contender that takes the address away: symbolic, any valid 64-bit NAME below ours (extra jobs)', 'send entry points exercised from inside the send call of the CA\'s own claim frames (first claim, claim for the next address, cannot-claim)'],
        'outside': ['other preferred addresses', 'J1939-22: only send_pgn / send_request'],
        'assumptions': ['the cyclic DM1 sender runs from the timer: only "no DM1 frame while not operational" is claimed for it (that the exception then ends the job thread is recorded as an observation)'],
    }

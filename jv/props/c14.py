"""C14 -- PGN requests reach exactly the addressed operational CAs; claims are answered."""
import j1939

from ..ref import ids
from ..runner import Job
from ..symx import sym_eq_seq, sym_and, sym_or, sym_not, T
from .. import world as W
from .common import make_ca

ST = j1939.ControllerApplication.State
REQ = 0x10


def h_request(ex, cas, requester='normal', dll='j1939-21', req_addr=REQ, echo=False):
    """cas: list of [claim history, preferred address] for the responder stack"""
    w = W.World(ex, mode='interleave')
    r = w.add_node('R', dll=dll)
    s = w.add_node('S', dll=dll)
    rca, rheld = make_ca(w, r, 'bypassed' if requester == 'normal' else 'not_started', req_addr, ident=5)
    resp = []
    for i, (hist, addr) in enumerate(cas):
        ca, held = make_ca(w, s, hist, addr, ident=100 + i)
        calls = []
        ca.subscribe_request(lambda src, dest, pgn, calls=calls: (w.callback_fired(), calls.append((src, dest, pgn))))
        resp.append({'ca': ca, 'held': held, 'calls': calls, 'i': i, 'node': 'S'})
    if echo:
        # the requester's interface echoes its own frames (python-can receive_own_messages): the CAs of the requesting
        # stack - the requester itself and a second CA - are addressees like everybody else
        rca2, rheld2 = make_ca(w, r, 'bypassed', req_addr + 1, ident=6)
        for j, (ca_, held_) in enumerate(((rca, rheld), (rca2, rheld2))):
            calls = []
            ca_.subscribe_request(lambda src, dest, pgn, calls=calls: (w.callback_fired(), calls.append((src, dest, pgn))))
            resp.append({'ca': ca_, 'held': held_, 'calls': calls, 'i': 10 + j, 'node': 'R'})
    base = len(w.log)
    pgn = ex.fresh_int('requested_pgn', 0, (1 << 18) - 1)
    dest = ex.fresh_int('dest', 0, 255)
    raised = None
    try:
        rca.send_request(0, pgn, dest)
    except RuntimeError as e:
        raised = e
    if echo and raised is None:
        for f in [f for f in w.log[base:] if f['src'] == 'R'][:1]:
            w.inject(r, f['id'], list(f['data']))
    w.run(until=w.now + T('1/50'))   # transitional claim states (wait_veto, lost_waiting) outlast this window
    is_claim_req = bool(pgn == 0xEE00)
    if requester != 'normal':
        # without an address only the request for address claim may be sent (from the null address)
        ex.claim('requester_without_address_raises', (raised is not None) == (not is_claim_req))
    else:
        ex.claim('request_accepted', raised is None)
    sent = [f for f in w.log[base:] if f['src'] == 'R' and bool(ids.id_fields(f['id'])['pf'] == 0xEA)]
    src_addr = req_addr if requester == 'normal' else 254
    if raised is None:
        ex.claim('one_request_frame', len(sent) == 1)
        fld = ids.id_fields(sent[0]['id'])
        ex.claim('request.frame', sym_and(fld['pf'] == 0xEA, fld['ps'] == dest, fld['sa'] == src_addr, fld['dp'] == 0, fld['edp'] == 0,
                                          len(sent[0]['data']) == 3,
                                          sym_eq_seq(sent[0]['data'], [pgn % 256, (pgn // 256) % 256, pgn // 65536])))
    answers = [f for f in w.log[base:] if f['src'] == 'S' or (f['src'] == 'R' and not bool(ids.id_fields(f['id'])['pf'] == 0xEA))]

    def same_addr(c):
        return any(o is not c and o['held'] is not None and o['held'] == c['held'] for o in resp)
    glob = bool(dest == 255)
    for c in resp:
        addressed = raised is None and c['held'] is not None and (glob or bool(dest == c['held']))
        info = {'ca': c['i'], 'held': c['held'], 'calls': len(c['calls']), 'claim_request': is_claim_req}
        mine = []
        for f in answers:
            fld = ids.id_fields(f['id'])
            if f['src'] != c['node']:
                continue
            if c['held'] is not None and bool(fld['sa'] == c['held']):
                # several CAs of one stack may hold the same address (claiming bypassed): an address-claimed frame
                # belongs to the CA whose NAME it carries
                if bool(fld['pf'] == 0xEE) and len(f['data']) == 8 and same_addr(c) and not bool(sym_eq_seq(f['data'], ids.name_bytes(c['ca']._name.value))):
                    continue
                mine.append((f, fld))
        if addressed and not is_claim_req:
            ex.claim('callback_once', len(c['calls']) == 1, info)
            if c['calls']:
                src, d, p = c['calls'][0]
                ex.claim('callback_args', sym_and(src == src_addr, d == dest, p == pgn), info)
            ex.claim('no_frame_for_ordinary_request', len(mine) == 0, info)
        elif addressed and is_claim_req:
            ex.claim('no_callback_for_claim_request', len(c['calls']) == 0, info)
            ex.claim('claim_answer_once', len(mine) == 1, info)
            if mine:
                f, fld = mine[0]
                ex.claim('claim_answer_frame', sym_and(fld['pf'] == 0xEE, fld['ps'] == 255, sym_eq_seq(f['data'], ids.name_bytes(c['ca']._name.value))), info)
        else:
            ex.claim('not_addressed_silent', len(c['calls']) == 0 and len(mine) == 0, info)
    # no frame from an address nobody holds
    for f in answers:
        fld = ids.id_fields(f['id'])
        ex.claim('answers_only_from_held_addresses', any(c['held'] is not None and c['node'] == f['src'] and bool(fld['sa'] == c['held']) for c in resp), {'id': f['id']})
    ex.observe('calls', [c['calls'] for c in resp])
    ex.observe('answers', [[f['id'], f['data']] for f in answers])
    ex.witness()


def jobs(tier):
    cfgs = [
        [['bypassed', 0x20]],
        [['normal_veto', 128]],
        [['not_started', 0x20]],
        [['wait_veto', 130]],
        [['cannot_claim', 128]],
        [['moved', 128]],
        [['bypassed', 0x20], ['bypassed', 0x21]],
        [['normal_veto', 128], ['cannot_claim', 140], ['bypassed', 0x20]],
        [['moved', 128], ['not_started', 129], ['normal_immediate', 10]],
        [['bypassed', 151], ['normal_veto', 150], ['lost_waiting', 160]],
        [['moved_twice', 128], ['bypassed', 151], ['wait_veto', 160]],
        [['bypassed', 0x20], ['moved_lost_waiting', 128]],
        [['bypassed_moved', 128]],
        # two CAs of one stack on the same address (claiming bypassed): both own it
        [['bypassed', 0x20], ['bypassed', 0x20]],
        [['bypassed', 0x20], ['bypassed', 0x21], ['bypassed', 0x20]],
        [['bypassed_cannot', 140], ['bypassed_moved', 128], ['bypassed', 0x20]],
        [['bypassed', 0x20], ['bypassed_lost_waiting', 128]],
    ]
    if tier != 'quick':
        cfgs += [[[a, 128], [c, 20], [b, 140]] for a in ('normal_veto', 'cannot_claim', 'moved', 'moved_twice') for c in ('normal_immediate', 'bypassed', 'not_started') for b in ('wait_veto', 'bypassed', 'not_started', 'lost_waiting', 'moved_lost_waiting')]
    if tier != 'quick':
        # every ordered pair of claim histories on one stack (a transitional history can only come last)
        from .common import CA_STATES
        trans = ('wait_veto', 'lost_waiting', 'moved_lost_waiting', 'bypassed_lost_waiting')
        for a in CA_STATES:
            if a in trans:
                continue
            for b in CA_STATES:
                cfgs.append([[a, 10 if a == 'normal_immediate' else 128], [b, 20 if b == 'normal_immediate' else 140]])
        # three CAs: every triple of non-transitional histories from a reduced list, followed by any history
        nt = ('normal_veto', 'normal_immediate', 'moved', 'cannot_claim', 'bypassed', 'bypassed_moved', 'not_started')
        for a in nt:
            for b in nt:
                for c in CA_STATES:
                    cfgs.append([[a, 10 if a == 'normal_immediate' else 128], [b, 20 if b == 'normal_immediate' else 150], [c, 30 if c == 'normal_immediate' else 170]])
    out = []
    for cfg in cfgs:
        for req in ('normal', 'none'):
            out.append(Job('C14', 'c14:h_request', {'cas': cfg, 'requester': req}, W=40, wall=120, validate=1))
    # address 0 (valid, and falsy in Python) and 253 as requester / responder
    for ra in (0, 253):
        out.append(Job('C14', 'c14:h_request', {'cas': [['bypassed', 0x20], ['bypassed', 0x21]], 'requester': 'normal', 'req_addr': ra}, W=40, wall=120, validate=1))
    out.append(Job('C14', 'c14:h_request', {'cas': [['bypassed', 0], ['normal_immediate', 1]], 'requester': 'normal', 'req_addr': 0x10}, W=40, wall=120, validate=1))
    # the requesting stack hears its own request (interface echo)
    out.append(Job('C14', 'c14:h_request', {'cas': [['bypassed', 0x20]], 'requester': 'normal', 'echo': True}, W=40, wall=120, validate=1))
    out.append(Job('C14', 'c14:h_request', {'cas': [['normal_veto', 128], ['bypassed', 0x20]], 'requester': 'normal', 'echo': True, 'req_addr': 0x40}, W=40, wall=120, validate=1))
    return out


def meta(tier):
    return {
        'bounds': ['requested PGN: all 2^18 values (symbolic); destination: all 256 values (symbolic)',
                   'requester with an address (0x10) and without one (only the address-claim request may be sent, from 254)',
                   '1..3 responder CAs on one stack in the claim histories listed in jobs() (thorough: every ordered pair of the 14 histories, 7 x 7 x 14 triples)', 'J1939-21; first argument of send_request fixed to 0'],
        'outside': ['send_request(1, ...) (emits a different PGN, not a request)', 'J1939-22'],
        'assumptions': ['transitional claim histories (wait_veto, lost_waiting, moved_lost_waiting, bypassed_lost_waiting) are set up last and the request is observed for 20 ms, i.e. before the state changes', 'address held by a CA is derived from its claim history (contending claims injected by the harness), not from the CA object'],
    }

"""C15 -- identifier / PGN / NAME codecs are exact inverses on their whole domain."""
import j1939

from ..ref import ids
from ..runner import Job
from ..symx import sym_eq_seq, sym_and, sym_or, sym_not

RES = 1 << 48


def h_id_parse(ex):
    x = ex.fresh_int('can_id', 0, (1 << 29) - 1)
    m = j1939.MessageId(can_id=x)
    ref = ids.id_fields(x)
    ex.claim('id.parse.priority', m.priority == ref['prio'])
    ex.claim('id.parse.pgn', m.parameter_group_number == ref['edp'] * 2 ** 17 + ref['dp'] * 2 ** 16 + ref['pf'] * 256 + ref['ps'])
    ex.claim('id.parse.sa', m.source_address == ref['sa'])
    ex.claim('id.roundtrip', m.can_id == x)
    p = j1939.ParameterGroupNumber()
    p.from_message_id(m)
    ex.claim('pgn.from_mid.dp', p.data_page == ref['dp'])
    ex.claim('pgn.from_mid.pf', p.pdu_format == ref['pf'])
    ex.claim('pgn.from_mid.ps', p.pdu_specific == ref['ps'])
    # numeric value agrees with the identifier's PGN modulo the extended-data-page bit
    ex.claim('pgn.value.mod_edp', p.value == ids.pgn_compose(ref['dp'], ref['pf'], ref['ps']))
    one = bool(p.is_pdu1_format)
    two = bool(p.is_pdu2_format)
    ex.claim('pgn.pdu.exclusive', one != two)
    if one:
        ex.claim('pgn.pdu1.iff', ref['pf'] < 240)
    else:
        ex.claim('pgn.pdu2.iff', ref['pf'] >= 240)
    ex.observe('fields', [m.priority, m.parameter_group_number, m.source_address, p.value, one])
    ex.witness()


def h_id_compose(ex):
    prio = ex.fresh_int('prio', 0, 7)
    pgn = ex.fresh_int('pgn', 0, (1 << 18) - 1)
    sa = ex.fresh_int('sa', 0, 255)
    m = j1939.MessageId(priority=prio, parameter_group_number=pgn, source_address=sa)
    cid = m.can_id
    ex.claim('id.compose', cid == ids.id_compose(prio, pgn, sa))
    ex.claim('id.compose.29bit', sym_and(cid >= 0, cid < (1 << 29)))
    m2 = j1939.MessageId(can_id=cid)
    ex.claim('id.compose.parse', sym_and(m2.priority == prio, m2.parameter_group_number == pgn, m2.source_address == sa))
    ex.observe('id', cid)
    ex.witness()


def h_pgn_fields(ex):
    dp = ex.fresh_int('dp', 0, 1)
    pf = ex.fresh_int('pf', 0, 255)
    ps = ex.fresh_int('ps', 0, 255)
    p = j1939.ParameterGroupNumber(dp, pf, ps)
    ex.claim('pgn.value', p.value == ids.pgn_compose(dp, pf, ps))
    ex.claim('pgn.fields', sym_and(p.data_page == dp, p.pdu_format == pf, p.pdu_specific == ps))
    one = bool(p.is_pdu1_format)
    two = bool(p.is_pdu2_format)
    ex.claim('pgn.pdu.exclusive', one != two)
    ex.claim('pgn.pdu.iff', (pf < 240) if one else (pf >= 240))
    # through an identifier and back
    m = j1939.MessageId(priority=3, parameter_group_number=p.value, source_address=0x42)
    q = j1939.ParameterGroupNumber()
    q.from_message_id(m)
    ex.claim('pgn.via_id', q.value == p.value)
    ex.observe('pgn', [p.value, one])
    ex.witness()


def _name_claims(ex, n, v0, tag):
    """n built from the 64-bit value whose reserved bit has been cleared = v0"""
    for f, pos, width in ids.NAME_FIELDS:
        ex.claim('name.%s.field.%s' % (tag, f), getattr(n, f) == ids.name_field(v0, f))
    ex.claim('name.%s.value' % tag, n.value == v0)
    ex.claim('name.%s.bytes' % tag, sym_eq_seq(n.bytes, ids.name_bytes(v0)))


def h_name_value(ex):
    v = ex.fresh_int('name', 0, (1 << 64) - 1)
    v0 = (v % RES) + (v // (2 * RES)) * (2 * RES)      # reserved bit reads as 0
    n = j1939.Name(value=v)
    _name_claims(ex, n, v0, 'from_value')
    n2 = j1939.Name(bytes=n.bytes)
    _name_claims(ex, n2, v0, 'value_bytes_value')
    ex.observe('name', [n.value, n.bytes])
    ex.witness()


def h_name_bytes(ex):
    bs = [ex.fresh_int('nb%d' % i, 0, 255) for i in range(8)]
    v = sum(b * 2 ** (8 * i) for i, b in enumerate(bs))
    v0 = (v % RES) + (v // (2 * RES)) * (2 * RES)
    n = j1939.Name(bytes=bs)
    _name_claims(ex, n, v0, 'from_bytes')
    ex.observe('name', [n.value, n.bytes])
    ex.witness()


def h_name_fields(ex):
    fields = {}
    for f, pos, width in ids.NAME_FIELDS:
        if f == 'reserved_bit':
            continue
        fields[f] = ex.fresh_int(f, 0, (1 << width) - 1)
    n = j1939.Name(**fields)
    v0 = ids.name_compose(fields)
    _name_claims(ex, n, v0, 'from_fields')
    n2 = j1939.Name(value=n.value)
    for f in fields:
        ex.claim('name.fields_value_fields.%s' % f, getattr(n2, f) == fields[f])
    ex.observe('name', [n.value, n.bytes])
    ex.witness()


def h_name_order(ex):
    """the comparison used by address arbitration (controller_application: own.value vs
    Name(bytes=received).value) is the comparison of the 64-bit values"""
    a = ex.fresh_int('name_a', 0, (1 << 64) - 1)
    b = ex.fresh_int('name_b', 0, (1 << 64) - 1)
    ex.assume(ids.name_field(a, 'reserved_bit') == 0)
    ex.assume(ids.name_field(b, 'reserved_bit') == 0)
    na = j1939.Name(value=a)
    nb = j1939.Name(bytes=ids.name_bytes(b))   # as received from the wire
    gt = na.value > nb.value
    eq = na.value == nb.value
    ex.claim('name.order.gt', gt == (a > b))
    ex.claim('name.order.eq', eq == (a == b))
    # AAC bit is the most significant one: a NAME with it set never beats one without
    ex.claim('name.order.aac_msb', sym_or(sym_not(sym_and(ids.name_field(a, 'arbitrary_address_capable') == 1,
                                                          ids.name_field(b, 'arbitrary_address_capable') == 0)), gt))
    ex.witness()


def h_arbitration(ex, state='normal'):
    """the comparison the arbitration code really performs: a CA holding (or announcing) an address receives an
    address-claimed frame for it from a contender; it keeps the address iff its 64-bit NAME is the lower one"""
    from .. import world as W
    from ..symx import T
    w = W.World(ex, mode='interleave')
    n = w.add_node('S')
    own = ex.fresh_int('own_name', 0, (1 << 63) - 1)          # not arbitrary address capable: the loser must give up
    other = ex.fresh_int('contender_name', 0, (1 << 64) - 1)
    ex.assume(ids.name_field(own, 'reserved_bit') == 0)
    ex.assume(ids.name_field(other, 'reserved_bit') == 0)
    ex.assume(own != other)
    addr = 128 if state == 'wait_veto' else 100
    ca = j1939.ControllerApplication(j1939.Name(value=own), addr)
    n.ecu.add_ca(controller_application=ca)
    ca.start(0.01)
    w.run(until=w.now + (T('1/20') if state == 'wait_veto' else T('4/10')))
    ST = j1939.ControllerApplication.State
    ex.claim('arbitration.setup', ca.state == (ST.WAIT_VETO if state == 'wait_veto' else ST.NORMAL))
    base = len(w.log)
    w.inject(n, (6 << 26) | (0xEE << 16) | (0xFF << 8) | addr, ids.name_bytes(other))
    w.run(until=w.now + T('1/100'))
    yielded = ca.state == ST.CANNOT_CLAIM
    # yields iff its own NAME is the numerically larger one
    ex.claim('arbitration.lower_64bit_name_keeps', (own > other) if yielded else (own < other), {'yielded': yielded, 'state': state})
    new = w.log[base:]
    ex.claim('arbitration.one_answer', len(new) == 1)
    if new:
        fld = ids.id_fields(new[0]['id'])
        ex.claim('arbitration.answer', sym_and(fld['pf'] == 0xEE, fld['sa'] == (254 if yielded else addr), sym_eq_seq(new[0]['data'], ids.name_bytes(own))))
    ex.observe('yielded', yielded)
    ex.witness()


HARNESSES = [('h_id_parse', 40), ('h_id_compose', 40), ('h_pgn_fields', 40), ('h_name_value', 96),
             ('h_name_bytes', 96), ('h_name_fields', 96), ('h_name_order', 96)]


def jobs(tier):
    extra = [Job('C15', 'c15:h_arbitration', {'state': st_}, W=96, wall=300, validate=2, cross=(tier != 'quick')) for st_ in ('normal', 'wait_veto')]
    return extra + [Job('C15', 'c15:' + h, {}, W=W, wall=120 if tier == 'quick' else 900, validate=3 if tier == 'quick' else 20, cross=(tier != 'quick')) for h, W in HARNESSES]


def meta(tier):
    return {
        'bounds': ['all 2^29 identifiers (symbolic)', 'all (priority 0..7, PGN 0..2^18-1, SA 0..255) triples (symbolic)',
                   'all (DP, PF, PS) triples (symbolic)', 'all 2^64 NAME values, all 8-byte images, all in-range NAME field tuples (symbolic)',
                   'all pairs of valid 64-bit NAMEs for the ordering (symbolic)', 'the comparison performed by ControllerApplication._process_addressclaim itself (CA operational / waiting for veto, contender NAME symbolic)'],
        'outside': ['out-of-range constructor arguments (negative, too wide)'],
        'assumptions': ['builtin int in j1939.name replaced by IntShim so that int.from_bytes runs on proxies (differentially self-tested)',
                        'reference layouts jv/ref/ids.py written from SAE J1939-21 / J1939-81 field tables'],
    }

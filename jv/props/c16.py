"""C16 -- DTCs and lamp states arrive exactly as sent (DM1, DTC, DM22)."""
from fractions import Fraction

import j1939

from ..ref import dm, ids
from ..runner import Job
from ..symx import sym_eq_seq, sym_and, sym_or, sym_not, T, concretize
from .. import world as W
from .common import Stack, log_digest

KEYS = dm.LAMP_ORDER


def h_dtc_encode(ex):
    spn = ex.fresh_int('spn', 0, (1 << 19) - 1)
    fmi = ex.fresh_int('fmi', 0, 31)
    oc = ex.fresh_int('oc', 0, 127)
    d = j1939.DTC(spn=spn, fmi=fmi, oc=oc)
    ex.claim('dtc.encode', d.dtc == dm.dtc_value(spn, fmi, oc))
    back = j1939.DTC(dtc=d.dtc)
    ex.claim('dtc.roundtrip', sym_and(back.spn == spn, back.fmi == fmi, back.oc == oc, back.cm == 0))
    ex.observe('dtc', d.dtc)
    ex.witness()


def h_dtc_decode(ex):
    raw = ex.fresh_int('raw', 0, (1 << 32) - 1)
    d = j1939.DTC(dtc=raw)
    ref = dm.dtc_fields(raw)
    ex.claim('dtc.decode.spn', d.spn == ref['spn'])
    ex.claim('dtc.decode.fmi', d.fmi == ref['fmi'])
    ex.claim('dtc.decode.oc', d.oc == ref['oc'])
    ex.claim('dtc.decode.cm', d.cm == ref['cm'])
    ex.observe('fields', [d.spn, d.fmi, d.oc, d.cm])
    ex.witness()


def h_lamps(ex):
    """all 5^4 lamp state combinations: the solver splits the cases at the library's table lookup"""
    st = {k: ex.fresh_int('lamp_' + k, 0, 4) for k in KEYS}
    data = j1939.DtcLamp().get_data(dict(st))
    conc = {k: concretize(st[k]) for k in KEYS}     # already fixed by the path condition of the lookup
    ex.claim('lamp.encode', sym_eq_seq(data, dm.lamp_bytes(conc)))
    back = {}
    for i, k in enumerate(KEYS):
        back[k] = j1939.DtcLamp().get_status((data[0] >> (2 * i)) & 3, (data[1] >> (2 * i)) & 3)
    ex.claim('lamp.roundtrip', all(back[k] == conc[k] for k in KEYS))
    ex.observe('lamps', [data, sorted(conc.items())])
    ex.witness()


def h_dm22(ex, which):
    w = W.World(ex, mode='interleave')
    s = Stack(w, 'A', 0x10)
    spn = ex.fresh_int('spn', 0, (1 << 19) - 1)
    fmi = ex.fresh_int('fmi', 0, 31)
    dest = ex.fresh_int('dest', 0, 253)
    d22 = j1939.Dm22(s.ca)
    if which == 'act':
        d22.request_clear_act_dtc(dest, spn, fmi)
        ctrl = 17
    else:
        d22.request_clear_pa_dtc(dest, spn, fmi)
        ctrl = 1
    ex.claim('dm22.one_frame', len(w.log) == 1)
    f = w.log[0]
    fld = ids.id_fields(f['id'])
    ex.claim('dm22.id', sym_and(fld['pf'] == 0xC3, fld['ps'] == dest, fld['sa'] == 0x10, fld['dp'] == 0, fld['edp'] == 0))
    ex.claim('dm22.bytes', sym_eq_seq(f['data'], dm.dm22_request(ctrl, spn, fmi)), {'which': which})
    ex.observe('frame', [f['id'], f['data']])
    ex.witness()


def h_dm1(ex, n, cycle='1', dll='j1939-21', sym_lamps=2, cycles=2, stop=True, claim=None, stop_from='app'):
    """sender A (Dm1.start_send) -> subscriber on B and C; n trouble codes"""
    w = W.World(ex, mode='interleave')
    sa = Stack(w, 'A', 0x10 if claim is None else 0x90, dll=dll, claim=claim)
    sb = Stack(w, 'B', 0x20, dll=dll)
    sc = Stack(w, 'C', 0x30, dll=dll)
    SA_ADDR = sa.addr
    lamps = {}
    for i, k in enumerate(KEYS):
        lamps[k] = ex.fresh_int('lamp_' + k, 0, 4) if i < sym_lamps else (i % 5)
    dtcs = [{'spn': ex.fresh_int('spn%d' % i, 0, (1 << 19) - 1), 'fmi': ex.fresh_int('fmi%d' % i, 0, 31),
             'oc': ex.fresh_int('oc%d' % i, 0, 127)} for i in range(n)]
    supplied = []

    def supply():
        w.callback_fired()
        supplied.append(w.now)
        return dict(lamps), [dict(d) for d in dtcs]

    got = {'B': [], 'C': []}

    def mk(name):
        def on_dm1(sa_, lamp_status, dtc_list, ts):
            w.callback_fired()
            got[name].append({'sa': sa_, 'lamps': lamp_status, 'dtcs': dtc_list, 't': w.now})
        return on_dm1

    tx = j1939.Dm1(sa.ca)
    rb = j1939.Dm1(sb.ca)
    rc = j1939.Dm1(sc.ca)
    # an earlier subscriber on the same Dm1 object that post-processes (here: empties) what it was handed must not change
    # what the later subscriber receives
    def mutator(sa_, lamp_status, dtc_list, ts):
        w.callback_fired()
        del dtc_list[:]
        lamp_status.clear()
    rb.subscribe(mutator)
    rb.subscribe(mk('B'))
    rc.subscribe(mk('C'))
    w.run(until=T('1/100'))
    cyc = T(cycle)
    stopped = []
    if stop_from == 'timer':
        # stop_send is called from another timer callback of the same ECU, registered earlier with the same period:
        # in the pass in which it stops the DM1 sender the DM1 timer is due as well
        ticks = []

        def supervise(cookie):
            w.callback_fired()
            ticks.append(w.now)
            if len(ticks) == cycles + 1:
                tx.stop_send(supply)
                stopped.append((w.now, len(supplied)))
                return False
            return True
        sa.ca.add_timer(cyc.c, supervise)
    tx.start_send(supply, cycletime=cyc.c)
    t_start = w.now
    w.run(until=t_start + cyc * cycles + cyc * Fraction(9, 10))
    conc_lamps = {k: concretize(v) for k, v in lamps.items()}
    ex.claim('dm1.cycles', len(supplied) == cycles, {'supplied': len(supplied), 'want': cycles})
    for name in ('B', 'C'):
        ex.claim('dm1.received_every_cycle', len(got[name]) == cycles, {'listener': name, 'got': len(got[name]), 'want': cycles, 'n': n})
        for g in got[name]:
            ex.claim('dm1.sa', g['sa'] == SA_ADDR)
            ex.claim('dm1.lamps', all(g['lamps'].get(k) == conc_lamps[k] for k in KEYS), {'listener': name})
            ok = len(g['dtcs']) == n
            ex.claim('dm1.dtc_count', ok, {'got': len(g['dtcs']), 'want': n})
            if ok:
                conds = []
                for x, y in zip(g['dtcs'], dtcs):
                    conds += [x['spn'] == y['spn'], x['fmi'] == y['fmi'], x['oc'] == y['oc']]
                ex.claim('dm1.dtcs_in_order', sym_and(*conds), {'n': n})
    # payload bytes on the bus per the reference layout (single frame only: data of the one frame)
    want = dm.dm1_payload(conc_lamps, dtcs)
    if dll == 'j1939-21' and len(want) <= 8:
        frames = [f for f in w.log if f['src'] == 'A' and bool(ids.id_fields(f['id'])['pf'] == 0xFE)]
        ex.claim('dm1.frames', len(frames) == cycles)
        for f in frames:
            fld = ids.id_fields(f['id'])
            ex.claim('dm1.id', sym_and(fld['pf'] == 0xFE, fld['ps'] == 0xCA, fld['sa'] == SA_ADDR, fld['dp'] == 0))
            ex.claim('dm1.payload_bytes', sym_eq_seq(f['data'], want))
    ex.claim('job_threads_alive', sa.alive() and sb.alive() and sc.alive())
    ex.observe('rx', [[k, [[g['sa'], sorted(g['lamps'].items()), [[d['spn'], d['fmi'], d['oc']] for d in g['dtcs']]] for g in v]] for k, v in sorted(got.items())])
    if stop and stop_from == 'timer':
        w.run(until=t_start + cyc * (cycles + 4))
        ex.claim('dm1.stop_from_timer_callback_ran', len(stopped) == 1, {'ticks': len(ticks)})
        if stopped:
            ex.claim('dm1.no_send_after_stop', len(supplied) == stopped[0][1], {'extra_cycles': len(supplied) - stopped[0][1], 'stop_from': 'timer callback'})
    elif stop:
        tx.stop_send(supply)
        t_stop = w.now
        nlog = len(w.log)
        nsup = len(supplied)
        # frames of a transfer already in progress may still complete; no new DM1 is started
        w.run(until=t_stop + cyc * 3)
        ex.claim('dm1.no_send_after_stop', len(supplied) == nsup, {'extra_cycles': len(supplied) - nsup})
    ex.witness()


def h_dm1_history(ex, ops, n=1):
    """start_send / stop_send histories on ONE Dm1 sender.  ops: ['start', cycle] | ['stop'] | ['wait', t].
    While registrations are active every one of them sends at its cycle; after stop_send no further DM1 is sent, however
    many times start_send had been called"""
    w = W.World(ex, mode='interleave')
    sa = Stack(w, 'A', 0x10)
    sb = Stack(w, 'B', 0x20)
    dtcs = [{'spn': ex.fresh_int('spn%d' % i, 0, (1 << 19) - 1), 'fmi': ex.fresh_int('fmi%d' % i, 0, 31), 'oc': ex.fresh_int('oc%d' % i, 0, 127)} for i in range(n)]
    supplied = []

    def supply():
        w.callback_fired()
        supplied.append(w.now)
        return {'pl': 1}, [dict(d) for d in dtcs]
    got = []
    tx = j1939.Dm1(sa.ca)
    rb = j1939.Dm1(sb.ca)
    rb.subscribe(lambda sa_, lamps, dl, ts: (w.callback_fired(), got.append(w.now)))
    w.run(until=T('1/100'))
    active = []       # (start instant, cycle) of the registrations since the last stop
    expect_min = 0
    stopped_at = None
    for op in ops:
        if op[0] == 'start':
            tx.start_send(supply, cycletime=Fraction(op[1]))
            active.append((w.now, Fraction(op[1])))
            stopped_at = None
        elif op[0] == 'stop':
            for (t0, c) in active:
                k = 1
                while bool(t0 + c * k + Fraction(1, 100) < w.now):
                    k += 1
                expect_min += k - 1
            n_before = len(supplied)
            ex.claim('dm1.history.sent_every_cycle_while_started', len(supplied) >= expect_min, {'supplied': len(supplied), 'expected_at_least': expect_min, 'ops': ops})
            tx.stop_send(supply)
            active = []
            stopped_at = (w.now, n_before)
        else:
            w.run(until=w.now + T(op[1]))
            if stopped_at is not None:
                ex.claim('dm1.history.no_send_after_stop', len(supplied) == stopped_at[1], {'extra_cycles': len(supplied) - stopped_at[1], 'ops': ops})
    w.run(until=w.now + T('1/10'))
    ex.claim('dm1.history.received_what_was_sent', len(got) == len(supplied), {'received': len(got), 'supplied': len(supplied)})
    ex.claim('job_threads_alive', sa.alive() and sb.alive())
    ex.witness()


def h_dm1_both(ex, cycles=4):
    """a node that sends DM1 and listens to DM1 with the SAME Dm1 object, its callback handing out the same DTC list object
    every cycle, while another node sends its own DM1: what each node broadcasts stays what its application supplies"""
    w = W.World(ex, mode='interleave')
    sa = Stack(w, 'A', 0x10)
    sb = Stack(w, 'B', 0x20)
    sc = Stack(w, 'C', 0x30)
    dtc_a = [{'spn': ex.fresh_int('spn_a', 0, (1 << 19) - 1), 'fmi': ex.fresh_int('fmi_a', 0, 31), 'oc': ex.fresh_int('oc_a', 0, 127)}]
    dtc_b = [{'spn': ex.fresh_int('spn_b', 0, (1 << 19) - 1), 'fmi': ex.fresh_int('fmi_b', 0, 31), 'oc': ex.fresh_int('oc_b', 0, 127)}]
    ref_a, ref_b = [dict(dtc_a[0])], [dict(dtc_b[0])]
    a, b, c = j1939.Dm1(sa.ca), j1939.Dm1(sb.ca), j1939.Dm1(sc.ca)
    heard_by_a = []
    a.subscribe(lambda sa_, lamps, dl, ts: (w.callback_fired(), heard_by_a.append(sa_)))
    seen = []
    c.subscribe(lambda sa_, lamps, dl, ts: (w.callback_fired(), seen.append((sa_, [dict(d) for d in dl]))))
    w.run(until=T('1/100'))
    a.start_send(lambda: (w.callback_fired(), ({'pl': 1}, dtc_a))[1], cycletime=Fraction(1, 5))      # the same list object every cycle
    b.start_send(lambda: (w.callback_fired(), ({'awl': 1}, [dict(dtc_b[0])]))[1], cycletime=Fraction(3, 10))
    w.run(until=w.now + Fraction(1, 5) * cycles + Fraction(1, 10))
    from_a = [d for s_, d in seen if bool(s_ == 0x10)]
    from_b = [d for s_, d in seen if bool(s_ == 0x20)]
    ex.claim('dm1.both.scene_reached', len(from_a) >= 3 and len(from_b) >= 2 and len(heard_by_a) >= 2, {'from_a': len(from_a), 'from_b': len(from_b), 'heard_by_a': len(heard_by_a)})
    for who, got, ref in (('A', from_a, ref_a), ('B', from_b, ref_b)):
        for d in got:
            ok = len(d) == 1
            ex.claim('dm1.both.dtc_count', ok, {'sender': who, 'got': len(d)})
            if ok:
                ex.claim('dm1.both.sender_keeps_its_own_codes', sym_and(d[0]['spn'] == ref[0]['spn'], d[0]['fmi'] == ref[0]['fmi'], d[0]['oc'] == ref[0]['oc']), {'sender': who})
    ex.claim('job_threads_alive', sa.alive() and sb.alive() and sc.alive())
    ex.witness()


def h_dm1_overlap(ex, n=3, cycle='3/50', cycles=5):
    """cycle shorter than the BAM it triggers and content that changes every cycle: a cycle that finds the
    previous transfer still running is legitimately skipped, but whatever a subscriber receives is exactly one
    of the snapshots the callback supplied - never a mixture"""
    w = W.World(ex, mode='interleave')
    w.branching = False
    sa = Stack(w, 'A', 0x10)
    sb = Stack(w, 'B', 0x20)
    snaps = []

    def supply():
        w.callback_fired()
        k = len(snaps)
        dtcs = [{'spn': ex.fresh_int('c%d_spn%d' % (k, i), 0, (1 << 19) - 1), 'fmi': (i + k) % 32, 'oc': ex.fresh_int('c%d_oc%d' % (k, i), 0, 127)} for i in range(n)]
        snaps.append(dtcs)
        return {'pl': 1, 'awl': 0, 'rsl': 0, 'mil': 1}, [dict(d) for d in dtcs]

    got = []
    j1939.Dm1(sb.ca).subscribe(lambda sa_, lamps, dtcs, ts: (w.callback_fired(), got.append(dtcs)))
    tx = j1939.Dm1(sa.ca)
    w.run(until=T('1/100'))
    cyc = Fraction(cycle)
    tx.start_send(supply, cycletime=cyc)
    w.run(until=w.now + cyc * cycles + Fraction(1, 2))
    ex.claim('dm1.overlap.something_received', len(got) >= 1, {'received': len(got), 'supplied': len(snaps)})
    # a cycle that finds the previous transfer still running may be skipped, but the cyclic sender keeps running
    ex.claim('dm1.overlap.sender_keeps_cycling', len(snaps) >= cycles, {'supplied': len(snaps), 'cycles': cycles})
    ex.claim('dm1.overlap.later_cycles_received', len(got) >= 2, {'received': len(got)})
    for g in got:
        ok = len(g) == n
        ex.claim('dm1.overlap.dtc_count', ok, {'got': len(g)})
        if ok:
            alts = []
            for sn in snaps:
                conds = []
                for x, y in zip(g, sn):
                    conds += [x['spn'] == y['spn'], x['fmi'] == y['fmi'], x['oc'] == y['oc']]
                alts.append(sym_and(*conds))
            ex.claim('dm1.overlap.received_is_one_supplied_snapshot', sym_or(*alts), {'received': len(got), 'supplied': len(snaps)})
    ex.claim('job_threads_alive', sa.alive() and sb.alive())
    ex.observe('n', [len(got), len(snaps)])
    ex.witness()


def jobs(tier):
    q = tier == 'quick'
    out = [Job('C16', 'c16:h_dtc_encode', {}, W=64, wall=600, cross=not q), Job('C16', 'c16:h_dtc_decode', {}, W=64, wall=600, cross=not q),
           Job('C16', 'c16:h_lamps', {}, W=40, wall=300, max_paths=5000, validate=3),
           Job('C16', 'c16:h_dm22', {'which': 'act'}, W=40, wall=600, cross=not q), Job('C16', 'c16:h_dm22', {'which': 'pa'}, W=40, wall=600, cross=not q)]
    for n in ([1, 2, 3, 15, 64] if q else list(range(1, 21)) + [64, 100, 400, 445]):
        cycle = '1' if n <= 15 else ('2' if n <= 30 else ('8' if n <= 100 else '30'))
        if n == 64:
            cycle = '3'
        out.append(Job('C16', 'c16:h_dm1', {'n': n, 'cycle': cycle, 'sym_lamps': 2 if q else (4 if n <= 2 else 2), 'cycles': 2},
                       W=40, wall=300 if q else 1800, max_paths=5000, validate=1))
    out.append(Job('C16', 'c16:h_dm1', {'n': 1, 'cycle': '1/5', 'sym_lamps': 1, 'cycles': 3}, W=40, wall=300, validate=1))
    for n in ([1, 14, 15] if q else [1, 2, 7, 14, 15, 16, 40, 100]):
        out.append(Job('C16', 'c16:h_dm1', {'n': n, 'dll': 'j1939-22', 'cycle': '1' if n <= 40 else '4', 'sym_lamps': 2, 'cycles': 2}, W=40, wall=300 if q else 1800, max_paths=5000, validate=1))
    # sender that went through the real claim procedure: its one-shot claim timer re-arms every 0.5 s next to the DM1 timer
    out.append(Job('C16', 'c16:h_dm1', {'n': 1, 'cycle': '1/5', 'sym_lamps': 1, 'cycles': 12, 'claim': 'normal_veto'}, W=40, wall=300, validate=1))
    out.append(Job('C16', 'c16:h_dm1', {'n': 2, 'cycle': '3/10', 'sym_lamps': 1, 'cycles': 8, 'claim': 'normal_immediate'}, W=40, wall=300, validate=1))
    out.append(Job('C16', 'c16:h_dm1', {'n': 1, 'cycle': '1/5', 'sym_lamps': 1, 'cycles': 2, 'stop_from': 'timer'}, W=40, wall=300, validate=1))
    out.append(Job('C16', 'c16:h_dm1', {'n': 3, 'cycle': '1', 'sym_lamps': 1, 'cycles': 2, 'stop_from': 'timer'}, W=40, wall=300, validate=1))
    out.append(Job('C16', 'c16:h_dm1', {'n': 1, 'dll': 'j1939-22', 'cycle': '1/5', 'sym_lamps': 1, 'cycles': 2, 'stop_from': 'timer'}, W=40, wall=300, validate=1))
    hists = [
        [['start', '1/5'], ['wait', '1/2'], ['start', '3/10'], ['wait', '1'], ['stop'], ['wait', '1']],
        [['start', '1/5'], ['start', '1/5'], ['wait', '1/2'], ['stop'], ['wait', '1']],
        [['start', '1/5'], ['wait', '1/2'], ['stop'], ['wait', '1/2'], ['start', '1/10'], ['wait', '1/2'], ['stop'], ['wait', '1']],
    ]
    if not q:
        hists += [
            [['start', '1/10'], ['start', '1/5'], ['start', '3/10'], ['wait', '1'], ['stop'], ['wait', '1']],
            [['start', '1/5'], ['wait', '3/10'], ['stop'], ['start', '1/5'], ['wait', '1/2'], ['start', '1'], ['wait', '1/2'], ['stop'], ['wait', '2']],
            [['start', '1'], ['wait', '1/2'], ['stop'], ['wait', '2']],
        ]
    for h in hists:
        out.append(Job('C16', 'c16:h_dm1_history', {'ops': h}, W=40, wall=300, validate=1))
    out.append(Job('C16', 'c16:h_dm1_both', {}, W=40, wall=300, validate=1))
    out.append(Job('C16', 'c16:h_dm1_overlap', {'n': 3, 'cycle': '3/50', 'cycles': 5}, W=40, wall=300, validate=1))
    out.append(Job('C16', 'c16:h_dm1_overlap', {'n': 5, 'cycle': '1/10', 'cycles': 6}, W=40, wall=300, validate=1))
    return out


def meta(tier):
    return {
        'bounds': ['DTC codec: all SPN 0..2^19-1, FMI 0..31, OC 0..127 and all 2^32 raw values (symbolic)',
                   'lamps: all 5^4 state combinations (split by the solver at the table lookup)',
                   'DM22: all SPN/FMI, destination 0..253, both request kinds',
                   'DM1 end to end on J1939-21 (single frame and BAM), number of codes n in ' + ('{1,2,3,15}' if tier == 'quick' else '{1..20,100,400,445}') + ', every DTC field symbolic, 1-4 lamps symbolic, 2-3 cycles, then stop_send (from the application, and from another timer callback due in the same pass) and 3 more cycle times',
                   'DM1 end to end on J1939-22: n in ' + ('{1,14,15}' if tier == 'quick' else '{1,2,7,14,15,16,40,100}') + ' (multi-PG up to 58 bytes, FD BAM above)', 'cycle times 0.2 s / 1 s (>= transfer duration)', 'start_send / stop_send histories on one Dm1 object: several start_send calls with equal and different cycle times, stop, restart', 'one Dm1 object that sends and listens (its callback handing out the same list object each cycle) next to another sender', 'overlap shape: cycle time shorter than the BAM, trouble codes change every cycle (fresh symbolic SPN/OC per call): every received DM1 equals one supplied snapshot'],
        'outside': ['cycle times shorter than the BAM they trigger (except the overlap shape)'],
        'assumptions': ['reference layouts jv/ref/dm.py from SAE J1939-73 field tables'],
    }

"""C17 -- DM14 memory access returns and stores exactly the addressed data."""
import j1939

from ..runner import Job
from ..symx import sym_eq_seq, sym_and, T
from .dm14 import Rig, READ, WRITE, ref_values, ref_bytes, CLI
from .common import sym_payload


def h_rw(ex, ops, seed_key=False, client='facade', direct=1, explore=False, cli=CLI):
    """ops: list of ['read', nbytes, size, signed, raw] or ['write', nbytes, size]; run back to back on one rig"""
    rig = Rig(ex, seed_key=seed_key, client=client, explore=explore, cli=cli)
    for i, op in enumerate(ops):
        kind, nbytes, size = op[0], op[1], op[2]
        ptr = ex.fresh_int('ptr%d' % i, 0, (1 << 32) - 1)     # every transaction has its own pointer (equal to an earlier one or not)
        count = nbytes // size
        n_proc, n_notify, n_ret = len(rig.proceed_calls), rig.notify_calls, len(rig.respond_returns)
        info = {'op': i, 'kind': kind, 'nbytes': nbytes, 'size': size, 'seed_key': seed_key, 'history': [o[:3] for o in ops[:i]]}
        err = None
        if kind == 'read':
            signed, raw = bool(op[3]), bool(op[4])
            data = sym_payload(ex, 'd%d_' % i, nbytes)
            rig.plan = {'data': data}
            try:
                res = rig.read(ptr, count, size, signed, raw, direct=direct)
            except Exception as e:
                res, err = None, e
            rig.settle()
            ex.claim('read.no_exception', err is None, dict(info, error=repr(err)))
            if err is None:
                want = data if raw else ref_values(data, size, signed)
                ok = res is not None and len(res) == len(want)
                ex.claim('read.result_length', ok, dict(info, got=None if res is None else len(res), want=len(want)))
                if ok:
                    ex.claim('read.result_exact', sym_eq_seq(list(res), want), dict(info, signed=signed, raw=raw))
        else:
            values = [ex.fresh_int('v%d_%d' % (i, j), 0, (1 << (8 * size)) - 1) for j in range(count)]
            rig.plan = {'data': []}
            try:
                rig.write(ptr, list(values), size, direct=direct)
            except Exception as e:
                err = e
            rig.settle()
            ex.claim('write.no_exception', err is None, dict(info, error=repr(err)))
            rets = rig.respond_returns[n_ret:]
            ok = len(rets) == 1 and rets[0] is not None and len(rets[0]) == nbytes
            ex.claim('write.server_got_data', ok, dict(info, returns=len(rets), got=None if not rets or rets[0] is None else len(rets[0]),
                                                       server_errors=[repr(e) for e in rig.respond_errors][-1:]))
            if ok:
                ex.claim('write.bytes_exact', sym_eq_seq(list(rets[0]), ref_bytes(values, size)), info)
        calls = rig.proceed_calls[n_proc:]
        ex.claim('proceed.called_once', len(calls) == 1, dict(info, calls=len(calls)))
        ex.claim('notify.called_once', rig.notify_calls - n_notify == 1, dict(info, calls=rig.notify_calls - n_notify))
        if len(calls) >= 1:
            c = calls[0]
            ex.claim('proceed.arguments', sym_and(c['command'] == (READ if kind == 'read' else WRITE), c['address'] == ptr,
                                                  c['pointer_type'] == direct, c['object_count'] == count, c['sa'] == cli), info)
        rig.idle_claims('idle', info)
        ex.claim('job_threads_alive', rig.sa.alive() and rig.sb.alive(), info)
        if rig.sa.node.notify_errors or rig.sb.node.notify_errors:
            ex.note('exceptions raised inside notify() handlers (logged by MessageListener): ' + ', '.join(sorted(set(repr(e) for e in rig.sa.node.notify_errors + rig.sb.node.notify_errors))))
    ex.observe('bus', [[f['src'], f['id'], f['data']] for f in rig.w.log][:60])
    ex.witness()


def jobs(tier):
    out = []
    q = tier == 'quick'

    def J(ops, wall=300, **p):
        p['ops'] = ops
        out.append(Job('C17', 'c17:h_rw', p, W=96, wall=wall if q else 1800, max_paths=20000, validate=1))

    sizes = [1, 2, 7, 8, 9, 16, 20, 254, 255] if q else list(range(1, 256))
    for sk in (False, True):
        for n in sizes:
            J([['read', n, 1, 0, 1]], seed_key=sk)
            J([['write', n, 1]], seed_key=sk)
        for (n, size) in [(1, 1), (4, 1), (9, 1), (20, 1), (2, 2), (4, 4), (8, 8), (4, 2), (8, 2), (8, 4), (16, 8), (12, 4), (20, 2)]:
            for signed in (0, 1):
                J([['read', n, size, signed, 0]], seed_key=sk)
            J([['write', n, size]], seed_key=sk)
    # several transactions back to back on the same objects
    for sk in (False, True):
        J([['read', 4, 1, 0, 1], ['read', 4, 1, 0, 1]], seed_key=sk)
        J([['write', 4, 1], ['write', 4, 1]], seed_key=sk)
        J([['read', 4, 1, 0, 1], ['write', 3, 1], ['read', 2, 1, 0, 1]], seed_key=sk)
        J([['read', 20, 1, 0, 1], ['read', 20, 1, 0, 1]], seed_key=sk)
        J([['read', 20, 1, 0, 1], ['write', 3, 1]], seed_key=sk)
        J([['write', 20, 1], ['read', 4, 1, 0, 1]], seed_key=sk)
        J([['write', 12, 4], ['write', 12, 4], ['read', 12, 4, 1, 0]], seed_key=sk)
    J([['read', 4, 1, 0, 1]], direct=0)
    J([['write', 4, 2]], direct=0)
    J([['read', 4, 1, 0, 1]], client='query')
    J([['write', 9, 1]], client='query', seed_key=True)
    for sk in (False, True):
        J([['read', 4, 1, 0, 1], ['write', 9, 1]], seed_key=sk, cli=0)
        J([['write', 2, 2], ['read', 20, 1, 0, 1]], seed_key=sk, cli=253)
    J([['read', 20, 1, 0, 1]], explore=True)
    J([['write', 20, 1]], explore=True)
    if not q:
        for sk in (False, True):
            for n in (8, 9, 15, 30):
                J([['read', n, 1, 0, 1]], explore=True, seed_key=sk, wall=3000)
                J([['write', n, 1]], explore=True, seed_key=sk, wall=3000)
            for (n, size) in [(16, 2), (24, 4), (64, 8), (248, 8), (252, 4), (254, 2)]:
                for signed in (0, 1):
                    J([['read', n, size, signed, 0]], seed_key=sk)
                J([['write', n, size]], seed_key=sk)
        # every object count for the multi-byte object sizes (count x size <= 255 bytes)
        for sk in (False, True):
            for size in (2, 4, 8):
                for count in range(1, 255 // size + 1):
                    n = count * size
                    J([['read', n, size, count % 2, 0]], seed_key=sk)
                    if count % 3 == 0 or n <= 16:
                        J([['read', n, size, 1 - count % 2, 0]], seed_key=sk)
                    J([['write', n, size]], seed_key=sk)
        # every history of two and three transactions over a set of shapes (single frame / boundary / multi-packet,
        # read / write, 1-byte and multi-byte objects), each with its own symbolic pointer
        shapes = [['read', 4, 1, 0, 1], ['read', 8, 1, 0, 1], ['read', 18, 2, 1, 0], ['write', 3, 1], ['write', 7, 1], ['write', 8, 4], ['read', 7, 1, 1, 0]]
        for sk in (False, True):
            for a in shapes:
                for b in shapes:
                    J([a, b], seed_key=sk)
                    for c in shapes[:4]:
                        J([a, b, c], seed_key=sk)
        for cl in ('query',):
            for n in (1, 7, 8, 9, 20, 100, 255):
                for sk in (False, True):
                    J([['read', n, 1, 0, 1]], client=cl, seed_key=sk)
                    J([['write', n, 1]], client=cl, seed_key=sk)
        for n in (1, 7, 8, 9, 20, 255):
            J([['read', n, 1, 0, 1], ['write', n, 1]], direct=0)
        for cli in (0, 1, 253):
            for sk in (False, True):
                J([['read', 7, 1, 0, 1], ['write', 8, 1], ['read', 9, 1, 0, 1]], seed_key=sk, cli=cli)
    return out


def meta(tier):
    return {
        'bounds': ['data lengths ' + ('{1,2,7,8,9,16,20,254,255}' if tier == 'quick' else 'every length 1..255') + ' bytes (single-frame DM16 up to 7, RTS/CTS above), object sizes 1/2/4/8',
                   '32-bit pointer, every data byte supplied by the server, every written value (full unsigned range), the seed (all 16-bit values) symbolic; key function (seed + 0x1234) mod 2^16 (not self-inverse)',
                   'read raw / converted, signed / unsigned; direct and spatial addressing; with and without seed/key; client through MemoryAccess and through Dm14Query',
                   '1..3 transactions back to back on the same objects, each with its own symbolic pointer' + ('' if tier == 'quick' else ' (every history of 2 and of 3 transactions over 7 shapes)') + '; canonical schedule (all interleavings for one 20-byte read and write' + ('' if tier == 'quick' else ' and for 8, 9, 15, 30 bytes') + ')'],
        'outside': ['other lengths', 'J1939-22'],
        'assumptions': ['command, status and pointer type stay concrete (they reach identity comparisons in the code under test)',
                        'the serving application answers 2 ms after the notify callback from its own thread (world event)',
                        'queue.Queue of Dm14Query / Dm14Server replaced by a queue whose blocking get() runs the scheduler'],
    }

"""C18 -- DM14 serves no data without the right key, surfaces errors, and recovers."""
from fractions import Fraction

import j1939

from ..ref import ids
from ..runner import Job
from ..symx import sym_eq_seq, sym_and, sym_or, sym_not, T
from .dm14 import Rig, READ, WRITE, ref_values, ref_bytes, CLI, SRV, key_from_seed
from .common import sym_payload

DEFINED = [e.value for e in j1939.J1939Error]


def dm15_error(error, edcp=0x07, status=5, direct=1):
    return [0x00, (direct << 4) + (status << 1) + 1, error & 0xFF, (error >> 8) & 0xFF, (error >> 16) & 0xFF, edcp, 0xFF, 0xFF]


def h_hist(ex, ops, seed_key=True, client='facade', timeout=1, app_delay=None, second_client=None, nbytes=4):
    """ops: list of [kind, rw, arg]  kind: ok | wrong_key | refuse_proceed | refuse_respond | error_dm15 | absent
            rw: 'read' | 'write'; arg: error code for refuse_respond / error_dm15"""
    need_key = seed_key or any(o[0] == 'wrong_key' for o in ops)
    rig = Rig(ex, seed_key=need_key, client=client, third=second_client is not None)
    # second_client: indices of the operations that are issued by ANOTHER client (a MemoryAccess on a third stack)
    other = None
    if second_client is not None:
        other = j1939.MemoryAccess(rig.sc.ca)
        if need_key:
            other.set_seed_key_algorithm(key_from_seed)
    w = rig.w
    if app_delay is not None:
        rig.app_delay = Fraction(app_delay)
    tmo = Fraction(timeout)
    hist = []
    for i, op in enumerate(ops):
        kind, rw = op[0], op[1]
        arg = op[2] if len(op) > 2 else None
        info = {'op': i, 'kind': kind, 'rw': rw, 'arg': arg, 'history': hist[:]}
        ptr = ex.fresh_int('ptr%d' % i, 0, (1 << 32) - 1)       # every operation has its own pointer
        n_proc, n_notify, n_ret = len(rig.proceed_calls), rig.notify_calls, len(rig.respond_returns)
        n_seeds = len(rig.seeds)
        base = len(w.log)
        data = sym_payload(ex, 'd%d_' % i, nbytes)
        values = [ex.fresh_int('v%d_%d' % (i, j), 0, 255) for j in range(nbytes)]
        rig.plan = {'data': data if rw == 'read' else []}
        client_obj = rig.cma if rig.cma is not None else rig.query
        wrong = None
        hook = None
        if kind == 'wrong_key':
            wrong = ex.fresh_int('key%d' % i, 0, 0xFFFF)
            client_obj.set_seed_key_algorithm(lambda seed, k=wrong: k)
            rig.sma.server.set_seed_key_algorithm(key_from_seed)
        elif need_key:
            client_obj.set_seed_key_algorithm(key_from_seed)
            rig.sma.server.set_seed_key_algorithm(key_from_seed)
        saved_delay = rig.app_delay
        if kind == 'late':
            # the serving application answers only after the caller's timeout: for the caller the server did not answer;
            # the late answer then completes the transaction in the background
            rig.app_delay = tmo + Fraction(1, 5)
        if kind == 'refuse_proceed':
            rig.plan = {'proceed': False}
        elif kind == 'refuse_respond':
            rig.plan = {'respond': False, 'error': arg, 'edcp': 0x07}
        elif kind in ('error_dm15', 'absent'):
            # the real server does not see the request; a scripted one answers (or nobody does)
            rig.sb.node.inbox_block = True
            saved_deliver = rig.sb.node.deliver
            rig.sb.node.deliver = lambda f: None
            if kind == 'error_dm15':
                def hook(f, arg=arg):
                    if f['src'] == 'A' and f['i'] >= base and not done:
                        done.append(1)
                        w.after(T('1/500'), lambda: w.inject(rig.sa.node, (6 << 26) | (0xD8 << 16) | (CLI << 8) | SRV, dm15_error(arg)), 'scripted-server')
                done = []
                w.frame_hooks.append(hook)
        t0 = w.now
        err = None
        res = None
        try:
            if other is not None and i in second_client:
                if rw == 'read':
                    res = other.read(SRV, 1, ptr, nbytes, 1, False, True, tmo)
                else:
                    other.write(SRV, 1, ptr, list(values), 1, tmo)
            elif rw == 'read':
                res = rig.read(ptr, nbytes, 1, False, True, timeout=tmo)
            else:
                rig.write(ptr, list(values), 1, timeout=tmo)
        except (RuntimeError, RuntimeWarning, AssertionError) as e:
            err = e
        t_ret = w.now
        rig.settle('1/2')
        rig.app_delay = saved_delay
        if hook is not None:
            w.frame_hooks.remove(hook)
        if kind in ('error_dm15', 'absent'):
            rig.sb.node.deliver = saved_deliver
        new = w.log[base:]
        served = [f for f in new if f['src'] == 'B' and bool(ids.id_fields(f['id'])['pf'] == 0xD7)]
        calls = rig.proceed_calls[n_proc:]
        key_ok = None
        if kind == 'wrong_key':
            expected = key_from_seed(rig.seeds[n_seeds]) if len(rig.seeds) > n_seeds else None    # the seed this request was sent
            key_ok = bool(wrong == expected)      # split by the solver into = / != expected
            info['key_matches'] = key_ok
        failing = kind in ('refuse_proceed', 'refuse_respond', 'error_dm15', 'absent', 'late') or (kind == 'wrong_key' and not key_ok)
        # the application is consulted, and data served, only for an exchange whose key matches the seed that was sent
        # (after a wrong key the client may answer later seeds too: every such exchange is judged on its own seed)
        if need_key:
            for c in calls:
                ex.claim('key.callback_only_after_matching_key', sym_and(c['key'] == key_from_seed(c['seed']), sym_or(*[c['seed'] == s_ for s_ in rig.seeds[n_seeds:]])),
                         dict(info, proceed_calls=len(calls)))
            ex.claim('key.no_data_without_callback', len(served) == 0 or len(calls) > 0, dict(info, dm16_frames=len(served)))
        if kind == 'wrong_key' and not key_ok and len(rig.seeds) == n_seeds + 1:
            ex.claim('key.no_callback_without_right_key', len(calls) == 0 and rig.notify_calls == n_notify, dict(info, proceed_calls=len(calls)))
            ex.claim('key.no_data_without_right_key', len(served) == 0 and len(rig.respond_returns) == n_ret, dict(info, dm16_frames=len(served)))
        if failing:
            ex.claim('error.reported_as_exception', err is not None and not isinstance(err, AssertionError), dict(info, error=repr(err), result=repr(res)[:60]))
            ex.claim('error.within_timeout', bool(t_ret <= t0 + tmo + T('1/100')), dict(info, took=str(t_ret - t0), timeout=str(tmo)))
            code = {'refuse_proceed': 0x100, 'refuse_respond': arg, 'error_dm15': arg, 'wrong_key': 0x1003}.get(kind)
            if err is not None and code is not None:
                txt = str(err)
                named = hex(code) in txt
                if code in DEFINED:
                    named = named and j1939.ErrorInfo[code] in txt
                ex.claim('error.names_the_code', named, dict(info, text=txt[:120], code=hex(code)))
            if kind in ('refuse_proceed', 'refuse_respond'):
                ex.claim('error.no_data_served', len(served) == 0, dict(info, dm16_frames=len(served)))
        else:
            ex.claim('ok.no_exception', err is None, dict(info, error=repr(err)))
            if err is None and rw == 'read':
                ok = res is not None and len(res) == nbytes
                ex.claim('ok.read_length', ok, dict(info, got=None if res is None else len(res)))
                if ok:
                    ex.claim('ok.read_exact', sym_eq_seq(list(res), data), info)
            if err is None and rw == 'write':
                rets = rig.respond_returns[n_ret:]
                ok = len(rets) == 1 and rets[0] is not None and len(rets[0]) == nbytes
                ex.claim('ok.write_server_got_data', ok, dict(info, returns=len(rets)))
                if ok:
                    ex.claim('ok.write_exact', sym_eq_seq(list(rets[0]), values), info)
            ex.claim('ok.proceed_called_once', len(calls) == 1, dict(info, calls=len(calls)))
        hist.append([kind if kind != 'wrong_key' else ('wrong_key' if not key_ok else 'right_key'), rw])
    rig.idle_claims('idle_at_end', {'history': hist})
    ex.claim('job_threads_alive', rig.sa.alive() and rig.sb.alive())
    ex.observe('history', hist)
    ex.observe('bus', [[f['src'], f['id'], f['data']] for f in rig.w.log][:80])
    ex.witness()


def jobs(tier):
    out = []
    q = tier == 'quick'

    def J(ops, wall=300, **p):
        p['ops'] = ops
        out.append(Job('C18', 'c18:h_hist', p, W=96, wall=wall if q else 1800, max_paths=20000, validate=1))

    fails = [['wrong_key'], ['refuse_proceed'], ['refuse_respond', 0x21], ['error_dm15', 0x101], ['absent'], ['late']]
    for rw in ('read', 'write'):
        for f in fails:
            for rw2 in ('read', 'write'):
                J([[f[0], rw] + f[1:], ['ok', rw2]])
            if f[0] not in ('absent', 'error_dm15'):
                # the next well-formed operation comes from another client
                J([[f[0], rw] + f[1:], ['ok', rw], ['ok', 'read']], second_client=[1])
        J([['ok', rw], ['wrong_key', rw], ['ok', rw]])
        J([['wrong_key', rw], ['wrong_key', rw], ['ok', rw]])
    # multi-packet data (RTS/CTS DM16) in failure histories
    for rw in ('read', 'write'):
        for f in fails:
            J([[f[0], rw] + f[1:], ['ok', rw]], nbytes=20)
        if not q:
            for f in fails:
                for n in (8, 9, 100):
                    J([[f[0], rw] + f[1:], ['ok', 'read'], ['ok', 'write']], nbytes=n)
    codes = [0x1, 0x2, 0x10, 0x100, 0x109, 0x1000, 0x1003, 0x10001, 0xBEEF, 0xFFFFFE] if q else DEFINED + [0xBEEF, 0xFFFFFE, 0x3, 0x7FFFFF]
    for c in codes:
        J([['error_dm15', 'read', c], ['ok', 'read']], seed_key=False)
        J([['refuse_respond', 'write', c], ['ok', 'write']], seed_key=(c % 2 == 0))
    J([['refuse_proceed', 'read'], ['ok', 'read']], seed_key=False)
    J([['refuse_respond', 'read', 0x22], ['ok', 'read']], seed_key=False)
    J([['absent', 'read'], ['ok', 'read']], seed_key=False)
    J([['absent', 'write'], ['ok', 'write']], seed_key=False)
    J([['absent', 'read'], ['ok', 'read']], seed_key=False, client='query')
    # the caller's timeout is honoured: shorter and longer than the default, absent and slow server
    for rw in ('read', 'write'):
        for cl in ('facade', 'query'):
            J([['absent', rw], ['ok', rw]], seed_key=False, client=cl, timeout='3/10')
            J([['ok', rw], ['ok', rw]], seed_key=(cl == 'facade'), client=cl, timeout='4', app_delay='7/5')
            J([['absent', rw], ['ok', rw]], seed_key=False, client=cl, timeout='5/2')
    J([['error_dm15', 'read', 0x10], ['ok', 'read']], seed_key=False, client='query')
    if not q:
        import itertools
        kinds = [['wrong_key'], ['refuse_proceed'], ['refuse_respond', 0x21], ['error_dm15', 0x101], ['absent'], ['ok']]
        for combo in itertools.product(kinds, repeat=3):
            if all(c[0] == 'ok' for c in combo):
                continue
            J([[c[0], 'read' if i % 2 == 0 else 'write'] + c[1:] for i, c in enumerate(combo)] + [['ok', 'read']], wall=1800)
        # the late answer (after the caller's timeout) in every position of a history of 3
        for combo in itertools.product(kinds + [['late']], repeat=2):
            for pos in range(3):
                ops = list(combo)
                ops.insert(pos, ['late'])
                J([[c[0], 'write' if i % 2 == 0 else 'read'] + c[1:] for i, c in enumerate(ops)] + [['ok', 'write']], wall=1800)
        # histories of 6 operations: every failure kind once, in rotated orders, successes in between
        allk = [['wrong_key'], ['refuse_proceed'], ['refuse_respond', 0x1002], ['error_dm15', 0x10], ['absent'], ['late']]
        for r in range(6):
            rot = allk[r:] + allk[:r]
            J([[c[0], 'read' if (i + r) % 2 else 'write'] + c[1:] for i, c in enumerate(rot[:5])] + [['ok', 'read']], wall=3000)
            J([[rot[0][0], 'read'] + rot[0][1:], ['ok', 'write'], [rot[1][0], 'write'] + rot[1][1:], [rot[2][0], 'read'] + rot[2][1:], ['ok', 'read'], ['ok', 'write']], wall=3000)
        for cl in ('query',):
            for combo in itertools.product(kinds, repeat=2):
                if all(c[0] == 'ok' for c in combo) or any(c[0] == 'wrong_key' for c in combo):
                    continue
                J([[c[0], 'read' if i % 2 == 0 else 'write'] + c[1:] for i, c in enumerate(combo)] + [['ok', 'read']], wall=1800, client=cl, seed_key=False)
    return out


def meta(tier):
    return {
        'bounds': ['failure kinds: wrong key (the returned key is a symbolic 16-bit value, split by the solver into = / != expected), refusal at the proceed callback, refusal at respond(False, error), error DM15 from a scripted server for ' + ('10 codes incl. undefined ones' if tier == 'quick' else 'every defined code + undefined ones') + ', absent server, server application answering after the caller\'s timeout',
                   'reads and writes of 4 bytes, and of 20 bytes (multi-packet DM16) for every failure kind (pointer, data, values, seed symbolic); histories of 2 operations (thorough: every history of 4, selected histories of 6) mixing failures and successes on the same objects, each operation with its own symbolic pointer; the operation after a failure issued by the same client and by a second client at another address',
                   'oracle after each failure: exception naming the code (and the library\'s text for defined codes) no later than the caller\'s timeout; callbacks and data only after the matching key; the next well-formed operation succeeds with the C17 oracle; all four state attributes idle at the end'],
        'outside': ['timeouts other than 0.3 / 1 / 2.5 / 4 s', 'EDCP extension values other than 0x06/0x07 (the client treats the error indicator as not valid then)', 'histories longer than ' + ('3' if tier == 'quick' else '6')],
        'assumptions': ['as C17'],
    }

"""C19 -- a second DM14 requester never disturbs or joins a running transaction."""
import j1939

from ..ref import ids
from ..runner import Job
from ..symx import sym_eq_seq, sym_and, sym_or, sym_not, T
from .dm14 import Rig, READ, WRITE, ref_values, ref_bytes, CLI, SRV
from .common import sym_payload


def h_intrude(ex, rw, nbytes, seed_key, who='foreign', n_intrusions=1, cli=CLI, icmd=0x13, ikey=None):
    """who: 'foreign' (another source address, symbolic, same or different pointer) |
            'same_sa' (the running requester's own address with another pointer)"""
    rig = Rig(ex, seed_key=seed_key, cli=cli)
    CLI_ = cli
    w = rig.w
    ptr = ex.fresh_int('ptr', 0, (1 << 32) - 1)
    if who == 'foreign':
        isa = ex.fresh_int('intruder_sa', 0, 253)
        ex.assume(isa != SRV)
        ex.assume(isa != CLI_)
        iptr = ex.fresh_int('intruder_ptr', 0, (1 << 32) - 1)       # equal to ptr or not: split by the solver
    else:
        isa = CLI_
        iptr = ex.fresh_int('intruder_ptr', 0, (1 << 32) - 1)
        ex.assume(iptr != ptr)
    icount = ex.fresh_int('intruder_count', 1, 255)
    # icmd: second byte of the intruding DM14 (pointer type / command): 0x13 read, 0x15 write, 0x19 operation completed,
    # 0x11 erase, 0x1B operation failed; ikey 'sym': its key / user level field symbolic (it may equal the expected key)
    if ikey == 'sym':
        kv = ex.fresh_int('intruder_key', 0, 0xFFFF)
        ktail = [kv % 256, kv // 256]
    else:
        ktail = [0x07, 0x00]
    idata = [icount, icmd] + [(iptr // 2 ** (8 * k)) % 256 for k in range(4)] + ktail
    icid = (6 << 26) | (0xD9 << 16) | (SRV << 8) | isa
    state = {'events': 0, 'injected': 0, 'in_deliver': False, 'started': False, 'where': []}

    def maybe_inject(label, direct):
        if not state['started'] or state['injected'] >= n_intrusions:
            return
        idx = state['events']
        state['events'] += 1
        if ex.choose('inj%d' % idx, 2) == 1:
            state['injected'] += 1
            state['where'].append('%d:%s' % (idx, label))
            if direct:
                w.inject(rig.sb.node, icid, list(idata))
            else:
                # arrives while the serving application thread is inside respond(): handled by the receive
                # path at the next scheduling point
                rig.sb.node.inbox.append({'i': -1, 't': w.now, 'src': 'ext', 'id': icid, 'ext': True, 'data': list(idata), 'fd': False, 'lost': False})

    orig_deliver = rig.sb.node.deliver

    def deliver(frame):
        state['in_deliver'] = True
        try:
            orig_deliver(frame)
        finally:
            state['in_deliver'] = False
        if frame['src'] == 'A':
            fld = ids.id_fields(frame['id'])
            closing = bool(fld['pf'] == 0xD9) and len(frame['data']) == 8 and bool(((frame['data'][1] // 2) % 8) == 4)
            if closing:
                state['started'] = False      # the transaction ends when the server has the closing DM14
            maybe_inject('after server received frame %d' % frame['i'], True)
    rig.sb.node.deliver = deliver

    def on_frame(f):
        if f['src'] == 'B' and not state['in_deliver'] and state['started']:
            maybe_inject('after server application sent frame %d' % f['i'], False)
    w.frame_hooks.append(on_frame)

    count = nbytes
    data = sym_payload(ex, 'd', nbytes)
    values = [ex.fresh_int('v%d' % j, 0, 255) for j in range(nbytes)]
    rig.plan = {'data': data if rw == 'read' else []}
    base = len(w.log)
    state['started'] = True
    err, res = None, None
    try:
        if rw == 'read':
            res = rig.read(ptr, count, 1, False, True, timeout=1)
        else:
            rig.write(ptr, list(values), 1, timeout=1)
    except (RuntimeError, RuntimeWarning) as e:
        err = e
    rig.settle('1/2')
    state['started'] = False
    info = {'rw': rw, 'nbytes': nbytes, 'seed_key': seed_key, 'who': who, 'injected_at': state['where']}
    # ---- the serving application never sees the intruder, nor another address
    for c in rig.proceed_calls:
        ex.claim('app.never_sees_intruder', sym_and(c['sa'] == CLI_, c['address'] == ptr), dict(info, calls=len(rig.proceed_calls)))
    ex.claim('app.consulted_at_most_once', len(rig.proceed_calls) <= 1, dict(info, calls=len(rig.proceed_calls)))
    # ---- whatever the server sends to the intruder is a DM15 'failed / busy'
    new = w.log[base:]
    for f in new:
        if f['src'] != 'B':
            continue
        fld = ids.id_fields(f['id'])
        to_intruder = bool(fld['ps'] == isa) if who == 'foreign' else False
        if to_intruder:
            st_bits = (f['data'][1] // 2) % 8
            ex.claim('intruder.answer_is_dm15_busy_or_failed', sym_and(fld['pf'] == 0xD8, sym_or(st_bits == 5, st_bits == 1)), dict(info, data=f['data']))
        if bool(fld['pf'] == 0xD7) and who == 'foreign':
            ex.claim('intruder.no_data_sent_to_intruder', fld['ps'] == CLI_, info)
    if who == 'foreign':
        # ---- the running transaction is not disturbed
        ex.claim('legit.no_exception', err is None, dict(info, error=repr(err)))
        if err is None and rw == 'read':
            ok = res is not None and len(res) == nbytes
            ex.claim('legit.read_length', ok, dict(info, got=None if res is None else len(res)))
            if ok:
                ex.claim('legit.read_exact', sym_eq_seq(list(res), data), info)
        if rw == 'write':
            rets = rig.respond_returns
            ok = len(rets) == 1 and rets[0] is not None and len(rets[0]) == nbytes
            ex.claim('legit.write_server_got_data', ok, dict(info, returns=len(rets)))
            if ok:
                ex.claim('legit.write_exact', sym_eq_seq(list(rets[0]), values), info)
        ex.claim('legit.proceed_called_once', len(rig.proceed_calls) == 1, dict(info, calls=len(rig.proceed_calls)))
        rig.idle_claims('legit.idle', info)
    else:
        # same source address, other pointer: never served in place of the running request
        if rw == 'read' and err is None and res:
            ok = len(res) == nbytes
            if ok:
                ex.claim('same_sa.result_is_the_running_requests_data', sym_eq_seq(list(res), data), info)
    ex.claim('job_threads_alive', rig.sa.alive() and rig.sb.alive())
    if state['injected'] == 0:
        ex.note('path without intrusion (baseline)')
    ex.observe('where', state['where'])
    ex.observe('bus', [[f['src'], f['id'], f['data']] for f in new][:60])
    ex.witness()


def h_client_busy(ex, rw, nbytes, seed_key):
    """the facade routes requests that arrive while it is itself querying to a busy answer: node A runs a read / write
    as CLIENT; a DM14 from a third node reaches A at every point of that transaction.  A's serving application is never
    consulted, whatever A answers is a DM15 failed / busy to the intruder, and A's own transaction is not disturbed."""
    rig = Rig(ex, seed_key=seed_key)
    w = rig.w
    a_calls = []
    rig.cma.set_proceed(lambda *a: (a_calls.append(('proceed', a[6])), True)[1])
    rig.cma.set_notify(lambda: a_calls.append(('notify', None)))
    ptr = ex.fresh_int('ptr', 0, (1 << 32) - 1)
    isa = ex.fresh_int('intruder_sa', 0, 253)
    ex.assume(isa != SRV)
    ex.assume(isa != CLI)
    iptr = ex.fresh_int('intruder_ptr', 0, (1 << 32) - 1)
    idata = [ex.fresh_int('intruder_count', 1, 255), 0x13] + [(iptr // 2 ** (8 * k)) % 256 for k in range(4)] + [0x07, 0x00]
    icid = (6 << 26) | (0xD9 << 16) | (CLI << 8) | isa
    state = {'events': 0, 'injected': 0, 'started': False, 'where': []}

    def maybe_inject(label):
        if not state['started'] or state['injected'] >= 1:
            return
        idx = state['events']
        state['events'] += 1
        if ex.choose('inj%d' % idx, 2) == 1:
            state['injected'] += 1
            state['where'].append('%d:%s' % (idx, label))
            # on the bus right after that frame, i.e. ahead of whatever the client has not processed yet
            rig.sa.node.inbox.insert(0, {'i': -1, 't': w.now, 'src': 'ext', 'id': icid, 'ext': True, 'data': list(idata), 'fd': False, 'lost': False})

    orig_deliver = rig.sa.node.deliver

    def deliver(frame):
        orig_deliver(frame)
        if frame['src'] == 'B':
            maybe_inject('after the client received frame %d' % frame['i'])
    rig.sa.node.deliver = deliver
    def on_a_frame(f):
        if f['src'] != 'A':
            return
        fld = ids.id_fields(f['id'])
        if bool(fld['pf'] == 0xD9) and len(f['data']) == 8 and bool(((f['data'][1] // 2) % 8) == 4):
            state['started'] = False      # the client's transaction ends with its closing (operation completed) DM14
            return
        maybe_inject('after the client sent frame %d' % f['i'])
    w.frame_hooks.append(on_a_frame)

    data = sym_payload(ex, 'd', nbytes)
    values = [ex.fresh_int('v%d' % j, 0, 255) for j in range(nbytes)]
    rig.plan = {'data': data if rw == 'read' else []}
    base = len(w.log)
    state['started'] = True
    err, res = None, None
    try:
        if rw == 'read':
            res = rig.read(ptr, nbytes, 1, False, True, timeout=1)
        else:
            rig.write(ptr, list(values), 1, timeout=1)
    except (RuntimeError, RuntimeWarning) as e:
        err = e
    state['started'] = False
    rig.settle('1/2')
    info = {'rw': rw, 'nbytes': nbytes, 'seed_key': seed_key, 'injected_at': state['where']}
    ex.claim('client_busy.application_not_consulted', len(a_calls) == 0, dict(info, calls=[c[0] for c in a_calls]))
    for f in w.log[base:]:
        if f['src'] != 'A':
            continue
        fld = ids.id_fields(f['id'])
        if bool(fld['ps'] == isa):
            st_bits = (f['data'][1] // 2) % 8
            ex.claim('client_busy.answer_is_dm15_busy_or_failed', sym_and(fld['pf'] == 0xD8, sym_or(st_bits == 5, st_bits == 1)), dict(info, data=f['data']))
    ex.claim('client_busy.own_transaction_ok', err is None, dict(info, error=repr(err)))
    if err is None and rw == 'read':
        ok = res is not None and len(res) == nbytes
        ex.claim('client_busy.read_length', ok, dict(info, got=None if res is None else len(res)))
        if ok:
            ex.claim('client_busy.read_exact', sym_eq_seq(list(res), data), info)
    if rw == 'write':
        rets = rig.respond_returns
        ok = len(rets) == 1 and rets[0] is not None and len(rets[0]) == nbytes
        ex.claim('client_busy.write_server_got_data', ok, dict(info, returns=len(rets)))
        if ok:
            ex.claim('client_busy.write_exact', sym_eq_seq(list(rets[0]), values), info)
    ex.claim('client_busy.facade_idle_afterwards', rig.cma.state is j1939.DMState.IDLE, dict(info, state=str(rig.cma.state)))
    ex.claim('job_threads_alive', rig.sa.alive() and rig.sb.alive())
    ex.observe('where', state['where'])
    ex.witness()


def jobs(tier):
    out = []
    q = tier == 'quick'

    def J(wall=300, **p):
        out.append(Job('C19', 'c19:h_intrude', p, W=96, wall=wall if q else 1800, max_paths=50000, validate=1))

    for rw in ('read', 'write'):
        for sk in (False, True):
            for n in ([3, 20] if q else [1, 2, 3, 7, 8, 9, 14, 15, 20, 40, 100, 255]):
                J(rw=rw, nbytes=n, seed_key=sk, who='foreign')
                J(rw=rw, nbytes=n, seed_key=sk, who='same_sa')
            J(rw=rw, nbytes=3, seed_key=sk, who='foreign', n_intrusions=2)
            for n in ([3, 20] if q else [1, 3, 7, 8, 9, 20]):
                out.append(Job('C19', 'c19:h_client_busy', {'rw': rw, 'nbytes': n, 'seed_key': sk}, W=96, wall=300, max_paths=50000, validate=1))
            for icmd in ((0x19, 0x15) if q else (0x11, 0x15, 0x17, 0x19, 0x1B, 0x1D, 0x1F, 0x03)):
                J(rw=rw, nbytes=3, seed_key=sk, who='foreign', icmd=icmd)
                if not q:
                    J(rw=rw, nbytes=9, seed_key=sk, who='same_sa', icmd=icmd)
            if sk:
                J(rw=rw, nbytes=3, seed_key=sk, who='foreign', ikey='sym')
            if not q:
                for n in (3, 9):
                    J(rw=rw, nbytes=n, seed_key=sk, who='foreign', n_intrusions=3)
                    J(rw=rw, nbytes=n, seed_key=sk, who='same_sa', n_intrusions=2)
            J(rw=rw, nbytes=3, seed_key=sk, who='foreign', cli=0x00)
            J(rw=rw, nbytes=9, seed_key=sk, who='foreign', cli=0xFD)
    return out


def meta(tier):
    return {
        'bounds': ['transaction shapes: read / write, with / without seed-key, data lengths ' + ('{3, 20}' if tier == 'quick' else '{1,2,3,7,8,9,14,15,20,40,100,255}') + ' (single-frame and RTS/CTS DM16)',
                   'injection point: after every frame the server has received from the running requester and after every frame the serving application thread has sent (enumerated schedule choice), 1 or 2 intrusions',
                   'intruder: foreign source address (symbolic 0..253, != server, != requester) with a symbolic pointer (= / != the running one, split by the solver) and symbolic count; or the requester\'s own address with a different pointer',
                   'pointer, data, values, seed symbolic', 'running requester at address 0xF9, 0x00, 0xFD', 'client-side shape: the intruding DM14 reaches a node that is itself running a read / write as client (every point of that transaction)'],
        'outside': ['intruding frames other than a single-frame DM14 (its command byte is one of read, write, operation completed' + ('' if tier == 'quick' else ', erase, status, operation failed, boot load, EDCP generation') + '; its key field 0x0007 or symbolic)', 'more than ' + ('two' if tier == 'quick' else 'three') + ' intrusions'],
        'assumptions': ['as C17'],
    }

"""helpers shared by the transport harnesses"""
from ..symx import sym_eq_seq, sym_and, sym_or, sym_not, T, is_sym
from .. import world as W

PROTOCOL_PF = (0xEA, 0xEB, 0xEC, 0xEE)          # request, TP.DT, TP.CM, address claim
PROTOCOL_PF_FD = (0xEA, 0xEE, 0x4D, 0x4E, 0x25, 0xEB, 0xEC)


class Stack:
    """one node with one CA (claim bypassed) and recording listeners"""

    def __init__(self, w, name, addr, dll='j1939-21', ecu_listener=False, claim=None, ecu0=False, **kw):
        """claim: None = address claim bypassed; otherwise a claim history of make_ca (e.g. 'normal_veto'): the CA
        runs the real claim procedure and its one-shot claim timer keeps re-arming every 0.5 s"""
        self.w = w
        self.name = name
        self.addr = addr
        self.node = w.add_node(name, dll=dll, **kw)
        if claim is None:
            self.ca = self.node.add_ca(addr)
        else:
            self.ca, held = make_ca(w, self.node, claim, addr, ident=500 + addr)
            self.addr = held
        self.rx = []        # deliveries to the CA's listener: dict(prio, pgn, sa, data, t)
        self.rx_ecu = []    # deliveries to an unfiltered ECU-level listener
        self.ca.subscribe(self._on_ca)
        if ecu_listener:
            self.node.ecu.subscribe(self._on_ecu)
        # ecu0: an ECU-level listener bound to address 0 (a valid address, falsy in Python).  It makes the stack an owner of
        # address 0, so it is only used where nobody else on the bus is addressed as 0: it then gets broadcasts only
        self.rx_ecu0 = []
        if ecu0:
            self.node.ecu.subscribe(self._on_ecu0, 0)

    def _on_ca(self, prio, pgn, sa, ts, data):
        self.w.callback_fired()
        self.rx.append({'prio': prio, 'pgn': pgn, 'sa': sa, 'data': list(data), 't': self.w.now})

    def _on_ecu(self, prio, pgn, sa, ts, data):
        self.w.callback_fired()
        self.rx_ecu.append({'prio': prio, 'pgn': pgn, 'sa': sa, 'data': list(data), 't': self.w.now})

    def _on_ecu0(self, prio, pgn, sa, ts, data):
        self.w.callback_fired()
        self.rx_ecu0.append({'prio': prio, 'pgn': pgn, 'sa': sa, 'data': list(data), 't': self.w.now})

    def alive(self):
        return self.node.job_alive()


def sym_payload(ex, name, n):
    return [ex.fresh_int('%s%d' % (name, i), 0, 255) for i in range(n)]


def log_digest(w, limit=400):
    out = []
    for f in w.log[:limit]:
        out.append([f['src'], f['id'], f['data'], 'lost' if f['lost'] else ''])
    return out


def is_eom_ack_report(m, pgn_cmp, peer_addr, dll='j1939-21'):
    """condition: delivery m is the end-of-message acknowledgement report of a completed connection-mode
    transfer (J1939-21: the raw 8-byte EndOfMsgACK; FD: the raw 12-byte EOMA)"""
    d = m['data']
    if dll == 'j1939-21':
        if len(d) != 8:
            return False
        return sym_and(d[0] == 19, m['sa'] == peer_addr)
    if len(d) != 12:
        return False
    return sym_and((d[0] & 0xF) == 3, m['sa'] == peer_addr)


def same_pgn(got, dp, pf, ps, pdu2):
    """PGN equality: data page, PDU format and, for PDU2, the group extension.  A PDU1 PGN has PS = 0 (the destination
    address is not part of the PGN), whichever transport carried the message."""
    if pdu2:
        return got == dp * 65536 + pf * 256 + ps
    return got == dp * 65536 + pf * 256


def quiesce(w, extra='1/2'):
    """let the bus drain and all timers that are due soon fire"""
    w.run(until=w.now + T(extra))


# --------------------------------------------------------------------------- CAs in every claim state
CA_STATES = ('not_started', 'wait_veto', 'normal_veto', 'normal_immediate', 'lost_waiting', 'moved', 'moved_lost_waiting',
             'moved_twice', 'cannot_claim', 'bypassed', 'bypassed_lost_waiting', 'bypassed_moved', 'bypassed_cannot', 'bypassed_unstarted_lost', 'vetoed_cannot', 'vetoed_moved')


def make_ca(w, node, state, addr, ident, aac=None, ex=None):
    """drive a real ControllerApplication on `node` through the named claim history by the real procedure.
    Returns (ca, address the CA holds according to the HISTORY (not according to the CA's own state) or None).
    Contending claims are injected from outside with a lower NAME."""
    import j1939
    from ..ref import ids
    if aac is None:
        aac = state in ('moved', 'lost_waiting', 'moved_lost_waiting', 'moved_twice', 'vetoed_moved')
    name = j1939.Name(arbitrary_address_capable=1 if aac else 0, industry_group=2, function=130, manufacturer_code=700, identity_number=ident)
    if state.startswith('bypassed'):
        # 'bypassed'                : claiming bypassed, operational on its preferred address at once
        # 'bypassed_lost_waiting'   : bypassed + started, arbitrary address capable, then loses the address: waits for the next one
        # 'bypassed_moved'          : ... and is operational on the next address after the veto time
        # 'bypassed_cannot'         : bypassed + started, fixed address, loses it: cannot claim
        # 'bypassed_unstarted_lost' : bypassed, never started (no claim timer), loses the address
        if aac is None or state != 'bypassed':
            aac = state in ('bypassed_lost_waiting', 'bypassed_moved', 'bypassed_unstarted_lost')
        name = j1939.Name(arbitrary_address_capable=1 if aac else 0, industry_group=2, function=130, manufacturer_code=700, identity_number=ident)
        ca = j1939.ControllerApplication(name, addr, bypass_address_claim=True)
        node.ecu.add_ca(controller_application=ca)
        node.cas.append(ca)
        if state == 'bypassed':
            return ca, addr
        if state != 'bypassed_unstarted_lost':
            ca.start(0.01)
            w.run(until=w.now + T('4/10'))
        low = j1939.Name(arbitrary_address_capable=0, identity_number=1).value
        w.inject(node, (6 << 26) | (0xEE << 16) | (0xFF << 8) | addr, ids.name_bytes(low))
        if state == 'bypassed_moved':
            w.run(until=w.now + T('7/10'))
            return ca, addr + 1
        return ca, None
    ca = j1939.ControllerApplication(name, addr)
    node.ecu.add_ca(controller_application=ca)
    node.cas.append(ca)
    if state == 'not_started':
        return ca, None
    ca.start(0.01)
    if state == 'wait_veto':
        w.run(until=w.now + T('1/20'))
        return ca, None
    if state in ('vetoed_cannot', 'vetoed_moved'):
        # the contending claim (lower NAME) arrives INSIDE the veto window of the first claim
        w.run(until=w.now + T('1/20'))
        low = j1939.Name(arbitrary_address_capable=0, identity_number=1).value
        w.inject(node, (6 << 26) | (0xEE << 16) | (0xFF << 8) | addr, ids.name_bytes(low))
        w.run(until=w.now + T('8/10'))
        return ca, (addr + 1 if state == 'vetoed_moved' else None)
    w.run(until=w.now + T('4/10'))
    if state in ('normal_veto', 'normal_immediate'):
        return ca, addr
    low = j1939.Name(arbitrary_address_capable=0, identity_number=1).value
    if ex is not None:
        # any valid NAME that is numerically lower than ours wins the contest
        from ..ref import ids as _ids
        low = ex.fresh_int('contender_name', 0, (1 << 64) - 1)
        ex.assume(_ids.name_field(low, 'reserved_bit') == 0)
        ex.assume(low < name.value)

    def contend(at):
        cid = (6 << 26) | (0xEE << 16) | (0xFF << 8) | at
        w.inject(node, cid, ids.name_bytes(low))

    # a contender with a lower NAME claims our address after we became operational
    contend(addr)
    if state in ('cannot_claim', 'lost_waiting'):
        return ca, None
    # arbitrary address capable -> next address, operational after the next timer tick
    w.run(until=w.now + T('7/10'))
    if state == 'moved':
        return ca, addr + 1
    contend(addr + 1)
    if state == 'moved_lost_waiting':
        return ca, None
    w.run(until=w.now + T('7/10'))
    return ca, addr + 2

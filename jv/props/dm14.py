"""shared harness pieces for the DM14 memory access properties (C17, C18, C19)"""
from fractions import Fraction

import j1939

from ..ref import ids
from ..symx import sym_eq_seq, sym_and, sym_or, sym_not, T, sym_from_bytes, concretize
from .. import world as W
from .common import Stack, sym_payload

CLI, SRV, INTR = 0xF9, 0xD4, 0xE5
READ, WRITE = 1, 2


def key_from_seed(seed):
    # deliberately NOT its own inverse (seed ^ 0xFFFF would hide a check that applies the algorithm to the wrong operand)
    return (seed + 0x1234) % 0x10000


class Rig:
    """client MemoryAccess on stack A, server MemoryAccess on stack B (J1939-21), scripted serving application"""

    def __init__(self, ex, seed_key=False, client='facade', explore=False, third=False, cli=CLI):
        self.ex = ex
        w = self.w = W.World(ex, mode='interleave')
        w.branching = bool(explore)
        self.sa = Stack(w, 'A', cli)
        self.cli = cli
        self.sb = Stack(w, 'B', SRV)
        self.sc = Stack(w, 'C', INTR) if third else None
        self.client_kind = client
        self.cma = j1939.MemoryAccess(self.sa.ca) if client == 'facade' else None
        self.query = self.cma.query if client == 'facade' else j1939.Dm14Query(self.sa.ca)
        self.sma = j1939.MemoryAccess(self.sb.ca)
        self.seed_key = seed_key
        self.n_seed = 0
        self.seeds = []
        if seed_key:
            (self.cma or self.query).set_seed_key_algorithm(key_from_seed)
            self.sma.set_seed_key_algorithm(key_from_seed)
            self.sma.set_seed_generator(self._seed)
        self.sma.set_proceed(self._proceed)
        self.sma.set_notify(self._notify)
        self.proceed_calls = []
        self.notify_calls = 0
        self.respond_returns = []
        self.respond_errors = []
        self.plan = None         # what the serving application does with the next request
        self.app_delay = Fraction(1, 500)
        w.run(until=T('1/100'))

    # ---- serving application
    def _seed(self):
        self.n_seed += 1
        s = self.ex.fresh_int('seed%d' % self.n_seed, 0, 0xFFFF)    # every 16-bit seed, boundaries 0x0000 and 0xFFFF included
        self.seeds.append(s)
        return s

    def _proceed(self, command, address, pointer_type, length, object_count, key, sa, access_level, seed):
        self.w.callback_fired()
        self.proceed_calls.append({'command': command, 'address': address, 'pointer_type': pointer_type, 'length': length,
                                   'object_count': object_count, 'key': key, 'sa': sa, 'seed': seed, 't': self.w.now})
        plan = self.plan or {}
        return plan.get('proceed', True)

    def _notify(self):
        self.w.callback_fired()
        self.notify_calls += 1
        plan = dict(self.plan or {})
        self.w.after(self.app_delay, lambda: self._respond(plan), 'server-app')

    def _respond(self, plan):
        try:
            if plan.get('respond', True):
                ret = self.sma.respond(True, list(plan.get('data', [])), 0xFFFF, 0xFF)
            else:
                ret = self.sma.respond(False, [], plan.get('error', 0x100), plan.get('edcp', 0x07))
            self.respond_returns.append(ret)
        except Exception as e:   # e.g. queue.Empty when the DM16 never arrives
            self.respond_errors.append(e)
            self.respond_returns.append(None)

    # ---- client operations (blocking calls run the scheduler nested)
    def read(self, address, count, size=1, signed=False, raw=False, direct=1, timeout=1):
        obj = self.cma if self.cma is not None else self.query
        return obj.read(SRV, direct, address, count, size, signed, raw, timeout)

    def write(self, address, values, size=1, direct=1, timeout=1):
        obj = self.cma if self.cma is not None else self.query
        return obj.write(SRV, direct, address, values, size, timeout)

    # ---- state oracles
    def idle_claims(self, tag, info=None):
        ex = self.ex
        info = info or {}
        ex.claim(tag + '.client_query_idle', self.query.state is j1939.QueryState.IDLE, dict(info, state=str(self.query.state)))
        if self.cma is not None:
            ex.claim(tag + '.client_facade_idle', self.cma.state is j1939.DMState.IDLE, dict(info, state=str(self.cma.state)))
        ex.claim(tag + '.server_idle', self.sma.server.state is j1939.ResponseState.IDLE, dict(info, state=str(self.sma.server.state)))
        ex.claim(tag + '.server_facade_idle', self.sma.state is j1939.DMState.IDLE, dict(info, state=str(self.sma.state)))

    def settle(self, t='1/2'):
        self.w.run(until=self.w.now + T(t))


def ref_values(raw, size, signed):
    """reference decode of little-endian objects"""
    out = []
    for i in range(len(raw) // size):
        out.append(sym_from_bytes(raw[i * size:(i + 1) * size], 'little', signed))
    return out


def ref_bytes(values, size):
    out = []
    for v in values:
        out += [(v // 2 ** (8 * k)) % 256 for k in range(size)]
    return out

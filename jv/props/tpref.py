"""tpref -- one real J1939-21 stack against an independent reference peer (C03 wire format, C09 flow control).

The peer is harness code written from SAE J1939-21 5.10; its legal free choices are symbolic:
CTS grant 1..min(RTS limit, remaining), hold-CTS count (parameter) and spacing, reply latency,
DT / BAM spacing, its own window limit in the RTS.  `prop` selects which property's claims are stated."""
from fractions import Fraction

import j1939

from ..ref import ids, tp21
from ..symx import sym_eq_seq, sym_and, sym_or, sym_not, sym_implies, T, concretize
from .. import world as W
from .common import sym_payload, PROTOCOL_PF

S_ADDR, P_ADDR = 0x20, 0x10
EPS = (Fraction(1, 100000), Fraction(2, 1000))
REPLY = (Fraction(25, 10000), Fraction(150, 1000))     # peer reply latency (> scheduling latency, see DESIGN C03)
HOLD = (Fraction(1, 100), Fraction(45, 100))           # spacing of hold CTS (< Th = 0.5 s)
DTGAP = (Fraction(25, 10000), Fraction(195, 1000))     # peer DT spacing (< 200 ms)
BAMGAP = (Fraction(50, 1000), Fraction(195, 1000))     # peer BAM spacing 50..200 ms


def mk_world(ex, wa, rts_cts_interval=None, bam_interval=None, eps_sym=True):
    w = W.World(ex, mode='timed', eps_range=EPS if eps_sym else None)
    kw = {}
    if rts_cts_interval is not None:
        kw['minimum_tp_rts_cts_dt_interval'] = Fraction(rts_cts_interval)
    if bam_interval is not None:
        kw['minimum_tp_bam_dt_interval'] = Fraction(bam_interval)
    n = w.add_node('S', max_cmdt_packets=wa, **kw)
    ca = n.add_ca(S_ADDR)
    rx = []
    ca.subscribe(lambda prio, pgn, sa, ts, data: (w.callback_fired(), rx.append({'prio': prio, 'pgn': pgn, 'sa': sa, 'data': list(data), 't': w.now})))
    return w, n, ca, rx


def pgn_inputs(ex, pdu2=False):
    dp = ex.fresh_int('dp', 0, 1)
    prio = ex.fresh_int('prio', 0, 7)
    if pdu2:
        pf = ex.fresh_int('pf', 240, 255)
        ps = ex.fresh_int('ge', 0, 255)
    else:
        pf = ex.fresh_int('pf', 0, 239)
        for p in PROTOCOL_PF:
            ex.assume(pf != p)
        ps = None
    return dp, pf, ps, prio


def frame_id_claim(ex, tag, f, prio, pf, ps, sa):
    fld = ids.id_fields(f['id'])
    ex.claim(tag, sym_and(fld['prio'] == prio, fld['pf'] == pf, fld['ps'] == ps, fld['sa'] == sa, fld['dp'] == 0, fld['edp'] == 0, f['ext'] is True),
             {'id': f['id']})


def kind_of(f):
    fld = ids.id_fields(f['id'])
    if bool(fld['pf'] == tp21.PF_CM):
        return 'cm'
    if bool(fld['pf'] == tp21.PF_DT):
        return 'dt'
    return 'other'


# --------------------------------------------------------------------------- stack originates RTS/CTS
def h_orig_cmdt(ex, prop, L, holds=(0,), interval=None, windows='sym', rewind=None, other_interval=None):
    """holds: number of hold-CTS (CTS with 0 packets) the peer sends before its k-th grant
    rewind = [k, back]: before its k-th grant the reference responder discards the last `back` packets and re-requests
    them (CTS whose next-packet field goes back: retransmission request)"""
    c03, c09 = prop == 'C03', prop == 'C09'
    wa = ex.fresh_int('win_stack', 1, 255) if windows == 'sym' else windows
    w, n, ca, rx = mk_world(ex, wa, rts_cts_interval=interval, bam_interval=other_interval)
    dp, pf, _, prio = pgn_inputs(ex)
    payload = sym_payload(ex, 'b', L)
    npk = tp21.npackets(L)
    pgn0 = dp * 65536 + pf * 256          # PS = 0 in the announced PGN of a destination specific message
    st = {'phase': 'rts', 'got': 0, 'granted': None, 'in_window': 0, 'grant_no': 0, 'cleared': False,
          'dts': [], 'limit': None, 'done': False, 'holding': False, 'last_dt': None, 'frames_after_eoma': 0}

    def send_cts():
        remaining = npk - st['got']
        if remaining <= 0:
            # the originator went on sending while the responder had not cleared anything
            ex.claim(('c03' if c03 else 'c09') + '.orig.data_sent_without_clearance', False, {'got': st['got'], 'npk': npk})
            return
        k = st['grant_no']
        nh = holds[k] if k < len(holds) else 0
        if st.get('holds_left') is None:
            st['holds_left'] = nh
        if st['holds_left'] > 0:
            st['holds_left'] -= 1
            st['holding'] = True
            st['cleared'] = False
            # a hold carries no meaningful next-packet number (SAE: 0xFF): any value
            w.inject(n, tp21.can_id(7, tp21.PF_CM, S_ADDR, P_ADDR), tp21.cts(0, ex.fresh_int('hold_next', 0, 255), pgn0))
            w.after(ex.fresh_real('hold_gap', HOLD[0], HOLD[1]), send_cts, 'peer')
            return
        st['holds_left'] = None
        if rewind is not None and k == rewind[0] and st['got'] >= rewind[1]:
            st['got'] -= rewind[1]
            del st['dts'][st['got']:]
            remaining = npk - st['got']
        hi = remaining
        grant = ex.fresh_int('grant%d' % k, 1, hi)
        ex.assume(grant <= st['limit'])
        st['granted'] = grant
        st['in_window'] = 0
        st['grant_no'] += 1
        st['cleared'] = True
        st['holding'] = False
        st['cts_t'] = w.now
        w.inject(n, tp21.can_id(7, tp21.PF_CM, S_ADDR, P_ADDR), tp21.cts(grant, st['got'] + 1, pgn0))

    def on_frame(f):
        if f['src'] != 'S':
            return
        k = kind_of(f)
        d = f['data']
        if st['done']:
            st['frames_after_eoma'] += 1
            return
        if st['phase'] == 'rts':
            if c03:
                ex.claim('c03.orig.first_frame_is_tp_cm', k == 'cm')
                frame_id_claim(ex, 'c03.orig.rts.id', f, prio, tp21.PF_CM, P_ADDR, S_ADDR)
                ex.claim('c03.orig.rts.bytes', sym_and(len(d) == 8, d[0] == tp21.RTS, d[1] == L % 256, d[2] == L // 256, d[3] == npk,
                                                       d[4] >= 1, sym_eq_seq(d[5:8], tp21.pgn_bytes(pgn0))), {'data': d})
            st['limit'] = d[4]
            st['phase'] = 'data'
            w.after(ex.fresh_real('reply', REPLY[0], REPLY[1]), send_cts, 'peer')
            return
        if k == 'dt':
            if c09:
                ex.claim('c09.orig.no_dt_without_clearance', st['cleared'] is True, {'got': st['got'], 'holding': st['holding']})
                if st['cleared']:
                    ex.claim('c09.orig.at_most_granted', st['in_window'] + 1 <= st['granted'], {'in_window': st['in_window'] + 1})
                if interval is not None and st['last_dt'] is not None and st['in_window'] > 0:
                    # within one CTS window; the gap across a CTS is governed by the peer's clearance
                    ex.claim('c09.orig.cmdt_min_interval', f['t'] - st['last_dt'] >= Fraction(interval))
            st['last_dt'] = f['t']
            if c03:
                frame_id_claim(ex, 'c03.orig.dt.id', f, 7, tp21.PF_DT, P_ADDR, S_ADDR)
                ex.claim('c03.orig.dt.bytes', sym_and(len(d) == 8, sym_eq_seq(d, tp21.dt(st['got'] + 1, payload))), {'seq': st['got'] + 1, 'data': d})
            st['got'] += 1
            st['in_window'] += 1
            if st['got'] == npk:
                st['phase'] = 'ack'
                st['cleared'] = False

                def ack():
                    st['done'] = True
                    w.inject(n, tp21.can_id(7, tp21.PF_CM, S_ADDR, P_ADDR), tp21.eoma(L, pgn0))
                w.after(ex.fresh_real('reply', REPLY[0], REPLY[1]), ack, 'peer')
            elif st['cleared'] and bool(st['in_window'] == st['granted']):
                st['cleared'] = False
                w.after(ex.fresh_real('reply', REPLY[0], REPLY[1]), send_cts, 'peer')
            return
        # anything else from the stack during the transfer (abort, CTS, ...) is not part of a correct exchange
        ex.claim(('c03' if c03 else 'c09') + '.orig.unexpected_frame', False, {'data': d, 'kind': k})

    w.frame_hooks.append(on_frame)
    w.run(until=T('1/100'))
    r = ca.send_pgn(dp, pf, P_ADDR, prio, list(payload))
    ex.claim('accepted', r is True)
    w.run(until=w.now + T(4) + T('7/10') * (npk + sum(holds)))
    tag = 'c03' if c03 else 'c09'
    ex.claim(tag + '.orig.all_packets_sent', st['got'] == npk, {'got': st['got'], 'npk': npk})
    ex.claim(tag + '.orig.session_closed', st['done'] and st['frames_after_eoma'] == 0, {'after': st['frames_after_eoma']})
    ex.claim('job_thread_alive', n.job_alive())
    ex.observe('bus', [[f['id'], f['data']] for f in w.log])
    ex.witness()


# --------------------------------------------------------------------------- peer originates RTS/CTS
def h_resp_cmdt(ex, prop, L, windows='sym', gap=None, limit=None):
    c03, c09 = prop == 'C03', prop == 'C09'
    wa = ex.fresh_int('win_stack', 1, 255) if windows == 'sym' else windows
    w, n, ca, rx = mk_world(ex, wa, eps_sym=gap is None)
    dp = ex.fresh_int('dp', 0, 1)
    pf = ex.fresh_int('pf', 0, 239)
    for p in PROTOCOL_PF:
        ex.assume(pf != p)
    payload = sym_payload(ex, 'b', L)
    npk = tp21.npackets(L)
    pgn0 = dp * 65536 + pf * 256
    limit = ex.fresh_int('rts_limit', 1, 255) if limit is None else limit
    st = {'sent': 0, 'done': False, 'eoma': 0, 'cts': 0, 'extra': 0}

    def send_dts(count, first):
        # `count` packets starting with sequence number `first`, each after its own symbolic gap
        def one(i):
            st['sent'] = first + i      # before the injection: the stack answers inside the call
            w.inject(n, tp21.can_id(7, tp21.PF_DT, S_ADDR, P_ADDR), tp21.dt(first + i, payload))
            if i + 1 < count:
                w.after(Fraction(gap) if gap is not None else ex.fresh_real('dt_gap', DTGAP[0], DTGAP[1]), lambda: one(i + 1), 'peer')
        w.after(Fraction(gap) if gap is not None else ex.fresh_real('reply', REPLY[0], REPLY[1]), lambda: one(0), 'peer')

    def on_frame(f):
        if f['src'] != 'S':
            return
        k = kind_of(f)
        d = f['data']
        tag = 'c03' if c03 else 'c09'
        if k != 'cm' or st['done']:
            st['extra'] += 1
            ex.claim(tag + '.resp.unexpected_frame', False, {'data': d})
            return
        ctrl = concretize(d[0])
        if ctrl == tp21.CTS:
            st['cts'] += 1
            remaining = npk - st['sent']
            if c09:
                ex.claim('c09.resp.grant_le_rts_limit', d[1] <= limit, {'remaining': remaining})
                ex.claim('c09.resp.grant_le_own_max', d[1] <= wa)
                ex.claim('c09.resp.grant_le_remaining', d[1] <= remaining, {'remaining': remaining})
            if c03:
                frame_id_claim(ex, 'c03.resp.cts.id', f, 7, tp21.PF_CM, P_ADDR, S_ADDR)
                ex.claim('c03.resp.cts.bytes', sym_and(len(d) == 8, d[1] >= 1, d[2] == st['sent'] + 1, d[3] == 0xFF, d[4] == 0xFF,
                                                       sym_eq_seq(d[5:8], tp21.pgn_bytes(pgn0))), {'data': d, 'sent': st['sent']})
            ex.claim(tag + '.resp.cts_while_data_outstanding', remaining > 0)
            cnt = concretize(d[1])
            cnt = max(0, min(cnt, remaining))      # a conforming originator never sends more than remain
            if cnt > 0:
                send_dts(cnt, st['sent'] + 1)
        elif ctrl == tp21.EOMA:
            st['eoma'] += 1
            st['done'] = True
            ex.claim(tag + '.resp.eoma_after_last_packet', st['sent'] == npk, {'sent': st['sent']})
            if c03:
                frame_id_claim(ex, 'c03.resp.eoma.id', f, 7, tp21.PF_CM, P_ADDR, S_ADDR)
                ex.claim('c03.resp.eoma.bytes', sym_and(len(d) == 8, d[1] == L % 256, d[2] == L // 256, d[3] == npk, d[4] == 0xFF,
                                                        sym_eq_seq(d[5:8], tp21.pgn_bytes(pgn0))), {'data': d})
        else:
            ex.claim(tag + '.resp.unexpected_frame', False, {'data': d})

    w.frame_hooks.append(on_frame)
    w.run(until=T('1/100'))
    w.inject(n, tp21.can_id(7, tp21.PF_CM, S_ADDR, P_ADDR), tp21.rts(L, limit, pgn0))
    w.run(until=w.now + T(3) + T('4/10') * npk)
    tag = 'c03' if c03 else 'c09'
    ex.claim(tag + '.resp.acknowledged', st['eoma'] == 1, {'eoma': st['eoma'], 'sent': st['sent'], 'cts': st['cts']})
    if c03:
        ex.claim('c03.resp.delivered_once', len(rx) == 1, {'deliveries': len(rx)})
        if rx:
            ex.claim('c03.resp.delivered_message', sym_and(rx[0]['sa'] == P_ADDR, (rx[0]['pgn'] // 256) == dp * 256 + pf, sym_eq_seq(rx[0]['data'], payload)))
    ex.claim('job_thread_alive', n.job_alive() and not n.notify_errors)
    ex.observe('bus', [[f['id'], f['data']] for f in w.log])
    ex.witness()


# --------------------------------------------------------------------------- BAM
def h_orig_bam(ex, prop, L, interval=None, pdu2=True, eps_sym=True, other_interval=None, timer=None):
    c03, c09 = prop == 'C03', prop == 'C09'
    w, n, ca, rx = mk_world(ex, 1, bam_interval=interval, eps_sym=eps_sym, rts_cts_interval=other_interval)
    if timer is not None:
        # an unrelated periodic application timer served by the same job thread: the pacing must not depend on it
        n.ecu.add_timer(Fraction(timer), lambda cookie: (w.callback_fired(), True)[1])
    dp, pf, ps, prio = pgn_inputs(ex, pdu2=pdu2)
    if not pdu2:
        ps = 255
    payload = sym_payload(ex, 'b', L)
    npk = tp21.npackets(L)
    pgn = dp * 65536 + pf * 256 + (ps if pdu2 else 0)        # the PGN of a PDU1 message has PS = 0
    ivl = Fraction(interval) if interval is not None else Fraction(0.05)
    w.run(until=T('1/100'))
    r = ca.send_pgn(dp, pf, ps, prio, list(payload))
    ex.claim('accepted', r is True)
    w.run(until=w.now + T(1) + (ivl + EPS[1]) * (npk + 1))
    frames = [f for f in w.log if f['src'] == 'S']
    tag = 'c03' if c03 else 'c09'
    ex.claim(tag + '.bam.frame_count', len(frames) == npk + 1, {'frames': len(frames), 'npk': npk})
    if len(frames) == npk + 1:
        if c03:
            frame_id_claim(ex, 'c03.bam.cm.id', frames[0], prio, tp21.PF_CM, 255, S_ADDR)
            ex.claim('c03.bam.cm.bytes', sym_eq_seq(frames[0]['data'], tp21.bam(L, pgn)), {'data': frames[0]['data']})
            for i, f in enumerate(frames[1:], 1):
                frame_id_claim(ex, 'c03.bam.dt.id', f, 7, tp21.PF_DT, 255, S_ADDR)
                ex.claim('c03.bam.dt.bytes', sym_and(len(f['data']) == 8, sym_eq_seq(f['data'], tp21.dt(i, payload))), {'seq': i})
        if c09:
            for a, b in zip(frames, frames[1:]):
                gap = b['t'] - a['t']
                ex.claim('c09.bam.min_spacing', gap >= ivl, {'interval': str(ivl)})
                ex.claim('c09.bam.max_spacing', sym_and(gap <= ivl + EPS[1], gap <= Fraction(2, 10)), {'interval': str(ivl)})
    ex.claim('job_thread_alive', n.job_alive())
    ex.observe('bus', [[f['id'], f['data'], f['t']] for f in w.log])
    ex.witness()


def h_orig_single(ex, prop, L, pdu2=False, dll='j1939-21'):
    """messages that fit into one frame: the identifier (priority, data page, PDU format, PDU specific, source address) and
    the data bytes under the reference identifier layout"""
    w, n, ca, rx = mk_world(ex, 1)
    dp, pf, ps, prio = pgn_inputs(ex, pdu2=pdu2)
    if not pdu2:
        ps = ex.fresh_int('dest', 0, 255)
    payload = sym_payload(ex, 'b', L)
    w.run(until=T('1/100'))
    r = ca.send_pgn(dp, pf, ps, prio, list(payload))
    ex.claim('accepted', r is True)
    w.run(until=w.now + T('1/10'))
    frames = [f for f in w.log if f['src'] == 'S']
    ex.claim('c03.single.one_frame', len(frames) == 1, {'frames': len(frames)})
    if len(frames) == 1:
        f = frames[0]
        fld = ids.id_fields(f['id'])
        ex.claim('c03.single.id', sym_and(fld['prio'] == prio, fld['dp'] == dp, fld['edp'] == 0, fld['pf'] == pf, fld['ps'] == ps, fld['sa'] == S_ADDR, f['ext'] is True),
                 {'id': f['id']})
        ex.claim('c03.single.bytes', sym_and(len(f['data']) == L, sym_eq_seq(f['data'], payload)))
    ex.claim('job_thread_alive', n.job_alive())
    ex.witness()


def h_orig_bam_busy(ex, prop, L=29, burst=12, tx='1/1000', interval=None, dll='j1939-21', first='cmdt', cmdt_interval=None):
    """BAM pacing while the same job thread has other work that takes time.  Every send call of a job pass takes `tx`
    (bus time of a frame; world.tx_time).  An RTS/CTS transfer to the peer is opened BEFORE the broadcast; the peer's CTS
    for the whole message arrives at a symbolic instant around the first BAM deadline, so the burst and a BAM packet can
    fall into one job pass.  Claim: consecutive BAM packets are still at least the configured interval apart."""
    w, n, ca, rx = mk_world(ex, 255, bam_interval=interval, rts_cts_interval=cmdt_interval)
    w.tx_time = Fraction(tx)
    ivl = Fraction(interval) if interval is not None else Fraction(1, 20)
    npk = tp21.npackets(L)
    payload = sym_payload(ex, 'b', L)
    w.run(until=T('1/100'))
    pgn_p2p = 0xD000
    # first = 'bam': the broadcast is opened before the RTS/CTS transfer, so in a pass in which both are due the BAM
    # packet is sent first and the paced RTS/CTS packet (cmdt_interval) follows it
    if first == 'cmdt':
        ex.claim('accepted', ca.send_pgn(0, 0xD0, P_ADDR, 6, [(3 * j) % 256 for j in range(burst * 7)]) is True)
    t_bam = w.now
    ex.claim('accepted', ca.send_pgn(0, 0xFE, 0x10, 6, list(payload)) is True)
    if first != 'cmdt':
        ex.claim('accepted', ca.send_pgn(0, 0xD0, P_ADDR, 6, [(3 * j) % 256 for j in range(burst * 7)]) is True)
    st = {'dts': 0, 'acked': False, 'p2p_t': []}

    def on_frame(f):
        if f['src'] != 'S':
            return
        fld = ids.id_fields(f['id'])
        if bool(fld['pf'] == tp21.PF_DT) and bool(fld['ps'] == P_ADDR):
            st['dts'] += 1
            st['p2p_t'].append(f['t'])
            if st['dts'] == burst and not st['acked']:
                st['acked'] = True
                w.after(T('1/200'), lambda: w.inject(n, tp21.can_id(7, tp21.PF_CM, S_ADDR, P_ADDR), tp21.eoma(burst * 7, pgn_p2p)), 'peer')
    w.frame_hooks.append(on_frame)
    # the CTS reaches the stack somewhere around the first BAM deadline (1 ms before .. 3 ms after)
    at = ex.fresh_real('cts_at', ivl - Fraction(1, 1000), ivl + Fraction(3, 1000))
    w.at(t_bam + at, lambda: w.inject(n, tp21.can_id(7, tp21.PF_CM, S_ADDR, P_ADDR), tp21.cts(burst, 1, pgn_p2p)), 'peer')
    w.run(until=w.now + T(1) + (ivl + EPS[1]) * (npk + 1))
    bam = [f for f in w.log if f['src'] == 'S' and bool(ids.id_fields(f['id'])['ps'] == 255)]
    ex.claim('c09.bam_busy.frame_count', len(bam) == npk + 1 and st['dts'] == burst, {'bam_frames': len(bam), 'npk': npk, 'burst_packets': st['dts']})
    for a, b in zip(bam, bam[1:]):
        ex.claim('c09.bam_busy.min_spacing', b['t'] - a['t'] >= ivl, {'interval': str(ivl), 'burst': burst, 'tx': tx})
    if cmdt_interval is not None:
        for a, b in zip(st['p2p_t'], st['p2p_t'][1:]):
            ex.claim('c09.bam_busy.cmdt_min_interval', b - a >= Fraction(cmdt_interval), {'interval': cmdt_interval, 'first': first, 'tx': tx})
    ex.claim('job_thread_alive', n.job_alive())
    ex.observe('bus', [[f['src'], f['id'], f['t']] for f in w.log])
    ex.witness()


def h_resp_bam(ex, prop, L, gap=None):
    """gap: None = fresh symbolic spacing per packet; otherwise one constant spacing (long messages)"""
    w, n, ca, rx = mk_world(ex, 1, eps_sym=gap is None)
    dp = ex.fresh_int('dp', 0, 1)
    pf = ex.fresh_int('pf', 240, 255)
    ge = ex.fresh_int('ge', 0, 255)
    pgn = dp * 65536 + pf * 256 + ge
    payload = sym_payload(ex, 'b', L)
    npk = tp21.npackets(L)
    w.run(until=T('1/100'))
    w.inject(n, tp21.can_id(7, tp21.PF_CM, 255, P_ADDR), tp21.bam(L, pgn))

    def nextgap():
        return Fraction(gap) if gap is not None else ex.fresh_real('bam_gap', BAMGAP[0], BAMGAP[1])

    def one(i):
        w.inject(n, tp21.can_id(7, tp21.PF_DT, 255, P_ADDR), tp21.dt(i, payload))
        if i < npk:
            w.after(nextgap(), lambda: one(i + 1), 'peer')
    w.after(nextgap(), lambda: one(1), 'peer')
    w.run(until=w.now + T(2) + T('2/10') * npk)
    ex.claim('c03.bam.rx.silent', len(w.log) == 0, {'frames': len(w.log)})
    ex.claim('c03.bam.rx.delivered_once', len(rx) == 1, {'deliveries': len(rx)})
    if rx:
        ex.claim('c03.bam.rx.delivered_message', sym_and(rx[0]['sa'] == P_ADDR, rx[0]['pgn'] == pgn, sym_eq_seq(rx[0]['data'], payload)))
    ex.claim('job_thread_alive', n.job_alive() and not n.notify_errors)
    ex.witness()

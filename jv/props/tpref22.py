"""tpref22 -- J1939-22 (FD) reference-peer harnesses for C03 / C09 (built after the J1939-21 ones)."""


def jobs(prop, tier):
    return []

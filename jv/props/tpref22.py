"""tpref22 -- one real J1939-22 stack against an independent FD reference peer (C03 wire format, C09 flow control).

The FD reference (jv/ref/tp22.py) is limited to the fields the property enumerates: identifier fields, control and
session nibbles, 24-bit size and segment fields, window byte, little-endian PGN, 1-based in-order segment numbers,
0xFF padding of the last FD.TP.DT, legal FD lengths.  Reserved / assurance-data bytes are not compared."""
from fractions import Fraction

from ..ref import ids, tp21, tp22
from ..runner import Job
from ..symx import sym_eq_seq, sym_and, sym_or, sym_not, T, concretize
from .. import world as W
from .common import sym_payload, PROTOCOL_PF_FD
from .tpref import S_ADDR, P_ADDR, EPS, REPLY, HOLD, DTGAP, frame_id_claim

BAMGAP = (Fraction(10, 1000), Fraction(195, 1000))     # FD BAM spacing of the reference originator 10..200 ms


def mk_world(ex, wa, rts_cts_interval=None, bam_interval=None):
    w = W.World(ex, mode='timed', eps_range=EPS)
    kw = {}
    if rts_cts_interval is not None:
        kw['minimum_tp_rts_cts_dt_interval'] = Fraction(rts_cts_interval)
    if bam_interval is not None:
        kw['minimum_tp_bam_dt_interval'] = Fraction(bam_interval)
    n = w.add_node('S', dll='j1939-22', max_cmdt_packets=wa, **kw)
    ca = n.add_ca(S_ADDR)
    rx = []
    ca.subscribe(lambda prio, pgn, sa, ts, data: (w.callback_fired(), rx.append({'prio': prio, 'pgn': pgn, 'sa': sa, 'data': list(data), 't': w.now})))
    return w, n, ca, rx


def kind_of(f):
    fld = ids.id_fields(f['id'])
    if bool(fld['pf'] == tp22.PF_CM):
        return 'cm'
    if bool(fld['pf'] == tp22.PF_DT):
        return 'dt'
    return 'other'


def cm_fields(d):
    return {'ctrl': d[0] % 16, 'session': d[0] // 16, 'size': d[1] + d[2] * 256 + d[3] * 65536,
            'seg': d[4] + d[5] * 256 + d[6] * 65536, 'b7': d[7], 'pgn': d[9] + d[10] * 256 + d[11] * 65536}


def inject(w, n, pf, data):
    w.inject(n, tp21.can_id(7, pf, S_ADDR, P_ADDR), data, fd=True)


# --------------------------------------------------------------------------- stack originates RTS/CTS
def h_orig_cmdt(ex, prop, L, holds=(0,), interval=None, windows='sym', rewind=None, other_interval=None):
    """rewind = [k, back]: before its k-th grant the reference responder discards the last `back` segments and
    re-requests them (CTS whose next-segment field goes back: retransmission request)"""
    c03, c09 = prop == 'C03', prop == 'C09'
    tag = 'c03' if c03 else 'c09'
    wa = ex.fresh_int('win_stack', 1, 255) if windows == 'sym' else windows
    w, n, ca, rx = mk_world(ex, wa, rts_cts_interval=interval, bam_interval=other_interval)
    dp = ex.fresh_int('dp', 0, 1)
    prio = ex.fresh_int('prio', 0, 7)
    pf = ex.fresh_int('pf', 0, 239)
    for p in PROTOCOL_PF_FD:
        ex.assume(pf != p)
    payload = sym_payload(ex, 'b', L)
    nseg = tp22.nsegments(L)
    pgn0 = dp * 65536 + pf * 256
    st = {'phase': 'rts', 'got': 0, 'granted': None, 'in_window': 0, 'grant_no': 0, 'cleared': False, 'limit': None,
          'done': False, 'last_dt': None, 'after': 0, 'session': None, 'holds_left': None, 'eoms': 0}

    def send_cts():
        remaining = nseg - st['got']
        if remaining <= 0:
            # the originator went on sending while the responder had not cleared anything
            ex.claim(tag + '.fd.orig.data_sent_without_clearance', False, {'got': st['got'], 'nseg': nseg})
            return
        k = st['grant_no']
        if st['holds_left'] is None:
            st['holds_left'] = holds[k] if k < len(holds) else 0
        if st['holds_left'] > 0:
            st['holds_left'] -= 1
            st['cleared'] = False
            inject(w, n, tp22.PF_CM, tp22.cm_frame(tp22.CTS, st['session'], 0xFFFFFF, ex.fresh_int('hold_next', 0, 0xFFFFFF), 0, 0, pgn0))
            w.after(ex.fresh_real('hold_gap', HOLD[0], HOLD[1]), send_cts, 'peer')
            return
        st['holds_left'] = None
        if rewind is not None and k == rewind[0] and st['got'] >= rewind[1]:
            st['got'] -= rewind[1]
            remaining = nseg - st['got']
        grant = ex.fresh_int('grant%d' % k, 1, remaining)
        ex.assume(grant <= st['limit'])
        st.update(granted=grant, in_window=0, cleared=True)
        st['grant_no'] += 1
        inject(w, n, tp22.PF_CM, tp22.cm_frame(tp22.CTS, st['session'], 0xFFFFFF, st['got'] + 1, grant, 0, pgn0))

    def on_frame(f):
        if f['src'] != 'S':
            return
        k = kind_of(f)
        d = f['data']
        if st['done']:
            st['after'] += 1
            return
        if c03:
            ex.claim('c03.fd.legal_length', len(d) in tp22.FD_LENGTHS and f['fd'] is True, {'len': len(d)})
        if st['phase'] == 'rts':
            cm = cm_fields(d)
            if c03:
                ex.claim('c03.fd.orig.first_frame_is_cm', k == 'cm')
                frame_id_claim(ex, 'c03.fd.orig.rts.id', f, prio, tp22.PF_CM, P_ADDR, S_ADDR)
                ex.claim('c03.fd.orig.rts.fields', sym_and(len(d) == 12, cm['ctrl'] == tp22.RTS, cm['size'] == L, cm['seg'] == nseg,
                                                           cm['b7'] >= 1, cm['pgn'] == pgn0), {'data': d})
            st['session'] = concretize(cm['session'])
            st['limit'] = cm['b7']
            st['phase'] = 'data'
            w.after(ex.fresh_real('reply', REPLY[0], REPLY[1]), send_cts, 'peer')
            return
        if k == 'dt':
            if c09:
                ex.claim('c09.fd.orig.no_dt_without_clearance', st['cleared'] is True, {'got': st['got']})
                if st['cleared']:
                    ex.claim('c09.fd.orig.at_most_granted', st['in_window'] + 1 <= st['granted'])
                if interval is not None and st['last_dt'] is not None and st['in_window'] > 0:
                    ex.claim('c09.fd.orig.cmdt_min_interval', f['t'] - st['last_dt'] >= Fraction(interval))
            st['last_dt'] = f['t']
            if c03:
                frame_id_claim(ex, 'c03.fd.orig.dt.id', f, 7, tp22.PF_DT, P_ADDR, S_ADDR)
                ex.claim('c03.fd.orig.dt.bytes', sym_eq_seq(d, tp22.dt_frame(st['session'], st['got'] + 1, payload)), {'seg': st['got'] + 1, 'len': len(d)})
            st['got'] += 1
            st['in_window'] += 1
            if st['got'] < nseg and st['cleared'] and bool(st['in_window'] == st['granted']):
                st['cleared'] = False
                w.after(ex.fresh_real('reply', REPLY[0], REPLY[1]), send_cts, 'peer')
            return
        if k == 'cm' and st['got'] == nseg and bool(cm_fields(d)['ctrl'] == tp22.EOMS):
            cm = cm_fields(d)
            st['eoms'] += 1
            if c03:
                frame_id_claim(ex, 'c03.fd.orig.eoms.id', f, 7, tp22.PF_CM, P_ADDR, S_ADDR)
                ex.claim('c03.fd.orig.eoms.fields', sym_and(len(d) == 12, cm['session'] == st['session'], cm['size'] == L, cm['seg'] == nseg, cm['pgn'] == pgn0), {'data': d})

            def ack():
                st['done'] = True
                inject(w, n, tp22.PF_CM, tp22.cm_frame(tp22.EOMA, st['session'], L, nseg, 0xFF, 0xFF, pgn0))
            w.after(ex.fresh_real('reply', REPLY[0], REPLY[1]), ack, 'peer')
            return
        ex.claim(tag + '.fd.orig.unexpected_frame', False, {'data': d[:12], 'kind': k})

    w.frame_hooks.append(on_frame)
    w.run(until=T('1/100'))
    r = ca.send_pgn(dp, pf, P_ADDR, prio, list(payload))
    ex.claim('accepted', r is True)
    w.run(until=w.now + T(5) + T('7/10') * (nseg + sum(holds)))
    ex.claim(tag + '.fd.orig.all_segments_sent', st['got'] == nseg and st['eoms'] == 1, {'got': st['got'], 'nseg': nseg, 'eoms': st['eoms']})
    ex.claim(tag + '.fd.orig.session_closed', st['done'] and st['after'] == 0, {'after': st['after']})
    # the session number is free again: a second transfer is accepted
    ex.claim(tag + '.fd.orig.next_transfer_accepted', ca.send_pgn(dp, pf, P_ADDR, prio, [1] * 70) is True)
    ex.claim('job_thread_alive', n.job_alive())
    ex.observe('bus', [[f['id'], f['data']] for f in w.log])
    ex.witness()


def h_orig_bam_busy(ex, prop, L=250, burst=12, tx='1/2000', interval=None):
    """J1939-22 twin of tpref:h_orig_bam_busy: FD BAM pacing while an RTS/CTS burst is handled by the same job thread and
    every send call of a pass takes `tx`"""
    w, n, ca, rx = mk_world(ex, 255, bam_interval=interval)
    w.tx_time = Fraction(tx)
    ivl = Fraction(interval) if interval is not None else Fraction(1, 100)
    nseg = tp22.nsegments(L)
    payload = sym_payload(ex, 'b', 4) + [(7 * j) % 256 for j in range(L - 4)]
    w.run(until=T('1/100'))
    pgn_p2p = 0xD000
    size = burst * 60
    ex.claim('accepted', ca.send_pgn(0, 0xD0, P_ADDR, 6, [(3 * j) % 256 for j in range(size)]) is True)
    t_bam = w.now
    ex.claim('accepted', ca.send_pgn(0, 0xFE, 0x10, 6, list(payload)) is True)
    st = {'dts': 0, 'acked': False, 'session': None}

    def on_frame(f):
        if f['src'] != 'S':
            return
        fld = ids.id_fields(f['id'])
        k = kind_of(f)
        if k == 'cm' and bool(fld['ps'] == P_ADDR) and st['session'] is None:
            st['session'] = concretize(cm_fields(f['data'])['session'])
        if k == 'cm' and bool(fld['ps'] == P_ADDR) and bool(cm_fields(f['data'])['ctrl'] == tp22.EOMS) and not st['acked']:
            st['acked'] = True
            w.after(T('1/200'), lambda: inject(w, n, tp22.PF_CM, tp22.cm_frame(tp22.EOMA, st['session'], size, burst, 0xFF, 0xFF, pgn_p2p)), 'peer')
        if k == 'dt' and bool(fld['ps'] == P_ADDR):
            st['dts'] += 1
    w.frame_hooks.append(on_frame)
    at = ex.fresh_real('cts_at', ivl - Fraction(1, 1000), ivl + Fraction(3, 1000))
    w.at(t_bam + at, lambda: inject(w, n, tp22.PF_CM, tp22.cm_frame(tp22.CTS, st['session'] or 0, 0xFFFFFF, 1, burst, 0, pgn_p2p)), 'peer')
    w.run(until=w.now + T(1) + (ivl + EPS[1]) * (nseg + 2))
    bam = [f for f in w.log if f['src'] == 'S' and bool(ids.id_fields(f['id'])['ps'] == 255) and kind_of(f) == 'dt']
    ex.claim('c09.fd.bam_busy.frame_count', len(bam) == nseg and st['dts'] == burst, {'bam_segments': len(bam), 'nseg': nseg, 'burst_segments': st['dts']})
    for a, b in zip(bam, bam[1:]):
        ex.claim('c09.fd.bam_busy.min_spacing', b['t'] - a['t'] >= ivl, {'interval': str(ivl), 'burst': burst, 'tx': tx})
    ex.claim('job_thread_alive', n.job_alive())
    ex.witness()


# --------------------------------------------------------------------------- peer originates RTS/CTS
def h_resp_cmdt(ex, prop, L, windows='sym', session=0, prefix=None):
    """prefix = k: very long messages (24-bit size and segment fields) - only the first k segments are exchanged, then the
    reference originator aborts; claimed: the responder keeps granting in sequence and does not acknowledge early"""
    c03, c09 = prop == 'C03', prop == 'C09'
    tag = 'c03' if c03 else 'c09'
    wa = ex.fresh_int('win_stack', 1, 255) if windows == 'sym' else windows
    w, n, ca, rx = mk_world(ex, wa)
    dp = ex.fresh_int('dp', 0, 1)
    pf = ex.fresh_int('pf', 0, 239)
    for p in PROTOCOL_PF_FD:
        ex.assume(pf != p)
    payload = sym_payload(ex, 'b', L) if prefix is None else sym_payload(ex, 'b', 8) + [(5 * j) % 256 for j in range(prefix * 60 + 60)]
    nseg = tp22.nsegments(L)
    pgn0 = dp * 65536 + pf * 256
    limit = ex.fresh_int('rts_limit', 1, 255)
    st = {'sent': 0, 'done': False, 'eoma': 0, 'cts': 0, 'eoms_sent': False, 'stopped': False}

    def send_eoms():
        st['eoms_sent'] = True
        inject(w, n, tp22.PF_CM, tp22.cm_frame(tp22.EOMS, session, L, nseg, 0, 0, pgn0))

    def send_dts(count, first):
        def one(i):
            st['sent'] = first + i
            inject(w, n, tp22.PF_DT, tp22.dt_frame(session, first + i, payload))
            if i + 1 < count:
                w.after(ex.fresh_real('dt_gap', DTGAP[0], DTGAP[1]), lambda: one(i + 1), 'peer')
            elif st['sent'] == nseg:
                w.after(ex.fresh_real('dt_gap', DTGAP[0], DTGAP[1]), send_eoms, 'peer')
        w.after(ex.fresh_real('reply', REPLY[0], REPLY[1]), lambda: one(0), 'peer')

    def on_frame(f):
        if f['src'] != 'S' or st['stopped']:
            return
        k = kind_of(f)
        d = f['data']
        if c03:
            ex.claim('c03.fd.legal_length', len(d) in tp22.FD_LENGTHS and f['fd'] is True, {'len': len(d)})
        if k != 'cm' or st['done']:
            ex.claim(tag + '.fd.resp.unexpected_frame', False, {'data': d[:12]})
            return
        cm = cm_fields(d)
        ctrl = concretize(cm['ctrl'])
        if ctrl == tp22.CTS:
            st['cts'] += 1
            remaining = nseg - st['sent']
            if c09:
                ex.claim('c09.fd.resp.grant_le_rts_limit', cm['b7'] <= limit)
                ex.claim('c09.fd.resp.grant_le_own_max', cm['b7'] <= wa)
                ex.claim('c09.fd.resp.grant_le_remaining', cm['b7'] <= remaining, {'remaining': remaining})
            if c03:
                frame_id_claim(ex, 'c03.fd.resp.cts.id', f, 7, tp22.PF_CM, P_ADDR, S_ADDR)
                ex.claim('c03.fd.resp.cts.fields', sym_and(len(d) == 12, cm['session'] == session, cm['b7'] >= 1, cm['seg'] == st['sent'] + 1, cm['pgn'] == pgn0),
                         {'data': d, 'sent': st['sent']})
            ex.claim(tag + '.fd.resp.cts_while_data_outstanding', remaining > 0)
            cnt = max(0, min(concretize(cm['b7']), remaining))
            if prefix is not None and st['sent'] >= prefix:
                # enough of the long message has been exchanged: the originator gives up
                st['stopped'] = True
                st['done'] = True
                inject(w, n, tp22.PF_CM, tp22.cm_frame(tp22.ABORT, session, 0xFFFFFF, 0xFFFFFF, 0xFF, 250, pgn0))
                return
            if cnt > 0:
                send_dts(cnt, st['sent'] + 1)
        elif ctrl == tp22.EOMA:
            st['eoma'] += 1
            st['done'] = True
            ex.claim(tag + '.fd.resp.eoma_after_eoms', st['eoms_sent'] is True and st['sent'] == nseg)
            if c03:
                frame_id_claim(ex, 'c03.fd.resp.eoma.id', f, 7, tp22.PF_CM, P_ADDR, S_ADDR)
                ex.claim('c03.fd.resp.eoma.fields', sym_and(len(d) == 12, cm['session'] == session, cm['size'] == L, cm['seg'] == nseg, cm['pgn'] == pgn0), {'data': d})
        else:
            ex.claim(tag + '.fd.resp.unexpected_frame', False, {'data': d[:12]})

    w.frame_hooks.append(on_frame)
    w.run(until=T('1/100'))
    inject(w, n, tp22.PF_CM, tp22.cm_frame(tp22.RTS, session, L, nseg, limit, 0, pgn0))
    w.run(until=w.now + T(3) + T('4/10') * ((nseg if prefix is None else prefix + 260) + 1))
    if prefix is not None:
        ex.claim(tag + '.fd.resp.long_message_keeps_being_granted', st['stopped'] is True and st['eoma'] == 0, {'sent': st['sent'], 'cts': st['cts'], 'eoma': st['eoma'], 'size': L})
        ex.claim('job_thread_alive', n.job_alive() and not n.notify_errors, {'errors': [repr(e) for e in n.notify_errors][:2]})
        ex.witness()
        return
    ex.claim(tag + '.fd.resp.acknowledged', st['eoma'] == 1, {'eoma': st['eoma'], 'sent': st['sent'], 'cts': st['cts']})
    if c03:
        ex.claim('c03.fd.resp.delivered_once', len(rx) == 1, {'deliveries': len(rx)})
        if rx:
            ex.claim('c03.fd.resp.delivered_message', sym_and(rx[0]['sa'] == P_ADDR, (rx[0]['pgn'] // 256) == dp * 256 + pf, sym_eq_seq(rx[0]['data'], payload)))
    ex.claim('job_thread_alive', n.job_alive() and not n.notify_errors, {'errors': [repr(e) for e in n.notify_errors][:2]})
    ex.observe('bus', [[f['id'], f['data']] for f in w.log])
    ex.witness()


# --------------------------------------------------------------------------- BAM
def h_orig_bam(ex, prop, L, interval=None, other_interval=None, timer=None):
    c03, c09 = prop == 'C03', prop == 'C09'
    tag = 'c03' if c03 else 'c09'
    w, n, ca, rx = mk_world(ex, 1, bam_interval=interval, rts_cts_interval=other_interval)
    if timer is not None:
        # an unrelated periodic application timer served by the same job thread: the pacing must not depend on it
        n.ecu.add_timer(Fraction(timer), lambda cookie: (w.callback_fired(), True)[1])
    dp = ex.fresh_int('dp', 0, 1)
    prio = ex.fresh_int('prio', 0, 7)
    pf = ex.fresh_int('pf', 240, 255)
    ge = ex.fresh_int('ge', 0, 255)
    payload = sym_payload(ex, 'b', L)
    nseg = tp22.nsegments(L)
    pgn = dp * 65536 + pf * 256 + ge
    ivl = Fraction(interval) if interval is not None else Fraction(0.010)
    w.run(until=T('1/100'))
    r = ca.send_pgn(dp, pf, ge, prio, list(payload))
    ex.claim('accepted', r is True)
    w.run(until=w.now + T(1) + (ivl + EPS[1]) * (nseg + 2))
    frames = [f for f in w.log if f['src'] == 'S']
    ex.claim(tag + '.fd.bam.frame_count', len(frames) == nseg + 2, {'frames': len(frames), 'nseg': nseg})
    if len(frames) == nseg + 2:
        cm = cm_fields(frames[0]['data'])
        sess = concretize(cm['session'])
        if c03:
            for f in frames:
                ex.claim('c03.fd.legal_length', len(f['data']) in tp22.FD_LENGTHS and f['fd'] is True, {'len': len(f['data'])})
            frame_id_claim(ex, 'c03.fd.bam.cm.id', frames[0], prio, tp22.PF_CM, 255, S_ADDR)
            ex.claim('c03.fd.bam.cm.fields', sym_and(len(frames[0]['data']) == 12, cm['ctrl'] == tp22.BAM, cm['size'] == L, cm['seg'] == nseg, cm['pgn'] == pgn), {'data': frames[0]['data']})
            for i, f in enumerate(frames[1:-1], 1):
                frame_id_claim(ex, 'c03.fd.bam.dt.id', f, 7, tp22.PF_DT, 255, S_ADDR)
                ex.claim('c03.fd.bam.dt.bytes', sym_eq_seq(f['data'], tp22.dt_frame(sess, i, payload)), {'seg': i})
            e = cm_fields(frames[-1]['data'])
            frame_id_claim(ex, 'c03.fd.bam.eoms.id', frames[-1], 7, tp22.PF_CM, 255, S_ADDR)
            ex.claim('c03.fd.bam.eoms.fields', sym_and(e['ctrl'] == tp22.EOMS, e['session'] == sess, e['size'] == L, e['seg'] == nseg, e['pgn'] == pgn))
        if c09:
            for a, b in zip(frames[:-1], frames[1:-1]):
                gap = b['t'] - a['t']
                ex.claim('c09.fd.bam.min_spacing', gap >= ivl, {'interval': str(ivl)})
                ex.claim('c09.fd.bam.max_spacing', sym_and(gap <= ivl + EPS[1], gap <= Fraction(2, 10)), {'interval': str(ivl)})
    ex.claim('job_thread_alive', n.job_alive())
    ex.observe('bus', [[f['id'], f['data'], f['t']] for f in w.log])
    ex.witness()


def h_orig_bam_two(ex, prop, L=181, interval='1/20', phase='1/50', mpg_limit=None):
    """two broadcasts of one J1939-22 stack out of phase (the second starts `phase` after the first), optionally a multi-PG
    group queued with a time limit as well: every session keeps its own pacing - consecutive segments of ONE session are at
    least the configured interval apart whatever other deadlines are pending in the same job pass"""
    w, n, ca, rx = mk_world(ex, 1, bam_interval=interval)
    ivl = Fraction(interval)
    nseg = tp22.nsegments(L)
    w.run(until=T('1/100'))
    ex.claim('accepted', ca.send_pgn(0, 0xFE, 0x10, 6, sym_payload(ex, 'a', 4) + [1] * (L - 4)) is True)
    w.run(until=w.now + ex.fresh_real('phase', Fraction(phase), Fraction(phase) + Fraction(1, 200)))
    ex.claim('accepted', ca.send_pgn(0, 0xFE, 0x11, 6, sym_payload(ex, 'c', 4) + [2] * (L + 56)) is True)
    if mpg_limit is not None:
        ex.claim('accepted', ca.send_pgn(0, 0xFE, 0x12, 6, [3] * 8, time_limit=Fraction(mpg_limit)) is True)
    w.run(until=w.now + T(1) + (ivl + EPS[1]) * (nseg + 4))
    by_session = {}
    for f in w.log:
        if f['src'] == 'S' and kind_of(f) == 'dt':
            by_session.setdefault(concretize(f['data'][0]) // 16, []).append(f)
    ex.claim('c09.fd.bam_two.both_sent', sorted(len(v) for v in by_session.values()) == sorted([nseg, tp22.nsegments(L + 60)]), {'segments': {k: len(v) for k, v in by_session.items()}})
    for sess, fr in sorted(by_session.items()):
        for a, b in zip(fr, fr[1:]):
            ex.claim('c09.fd.bam_two.min_spacing', b['t'] - a['t'] >= ivl, {'session': sess, 'interval': str(ivl)})
    ex.claim('job_thread_alive', n.job_alive())
    ex.witness()


def h_resp_bam(ex, prop, L, session=1):
    w, n, ca, rx = mk_world(ex, 1)
    dp = ex.fresh_int('dp', 0, 1)
    pf = ex.fresh_int('pf', 240, 255)
    ge = ex.fresh_int('ge', 0, 255)
    pgn = dp * 65536 + pf * 256 + ge
    payload = sym_payload(ex, 'b', L)
    nseg = tp22.nsegments(L)
    w.run(until=T('1/100'))
    w.inject(n, tp21.can_id(7, tp22.PF_CM, 255, P_ADDR), tp22.cm_frame(tp22.BAM, session, L, nseg, 0xFF, 0, pgn), fd=True)

    def one(i):
        if i <= nseg:
            w.inject(n, tp21.can_id(7, tp22.PF_DT, 255, P_ADDR), tp22.dt_frame(session, i, payload), fd=True)
            w.after(ex.fresh_real('bam_gap', BAMGAP[0], BAMGAP[1]), lambda: one(i + 1), 'peer')
        else:
            w.inject(n, tp21.can_id(7, tp22.PF_CM, 255, P_ADDR), tp22.cm_frame(tp22.EOMS, session, L, nseg, 0, 0, pgn), fd=True)
    w.after(ex.fresh_real('bam_gap', BAMGAP[0], BAMGAP[1]), lambda: one(1), 'peer')
    w.run(until=w.now + T(2) + T('2/10') * (nseg + 1))
    ex.claim('c03.fd.bam.rx.silent', len(w.log) == 0, {'frames': len(w.log)})
    ex.claim('c03.fd.bam.rx.delivered_once', len(rx) == 1, {'deliveries': len(rx)})
    if rx:
        ex.claim('c03.fd.bam.rx.delivered_message', sym_and(rx[0]['sa'] == P_ADDR, rx[0]['pgn'] == pgn, sym_eq_seq(rx[0]['data'], payload)))
    ex.claim('job_thread_alive', n.job_alive() and not n.notify_errors)
    ex.witness()


def jobs(prop, tier):
    out = []
    q = tier == 'quick'

    def J(h, wall=300, **p):
        p['prop'] = prop
        out.append(Job(prop, 'tpref22:' + h, p, W=40, wall=wall if q else 1800, max_paths=200000, validate=1))

    Ls = [61, 120, 121, 180, 181, 245] if q else [61, 62, 119, 120, 121, 179, 180, 181, 240, 241, 299, 300, 301, 360, 421, 480]
    for L in Ls:
        J('h_orig_cmdt', L=L)
        J('h_resp_cmdt', L=L)
        if prop == 'C03':
            J('h_orig_bam', L=L)
            J('h_resp_bam', L=L)
    if prop == 'C03':
        # every residue of the length modulo 60: the last segment exercises every entry of the FD length table
        for L in range(61, 121):
            if L not in Ls:
                J('h_orig_bam', L=L)
        for L in ((105, 165) if q else range(122, 181)):
            J('h_orig_cmdt', L=L, windows=255)
    # paced connection-mode transfer (minimum_tp_rts_cts_dt_interval) against a peer that grants less than remains
    J('h_orig_cmdt', L=245, interval='1/100')
    # messages beyond 65535 bytes / 255 segments: third byte of the size field, second byte of the segment fields
    if prop == 'C03':
        J('h_resp_cmdt', L=65600, prefix=8, windows=2)
        J('h_resp_cmdt', L=16000000, prefix=5, windows=1)
    # a window of one segment and a slow originator: the whole transfer lasts longer than T2 although no single wait does
    J('h_resp_cmdt', L=601, windows=1)
    J('h_resp_cmdt', L=181, session=7)
    J('h_orig_cmdt', L=181, holds=[1, 0, 1])
    # retransmission requests: the responder re-requests segments it already received
    for rw in ([[1, 1], [1, 2], [2, 1]] if q else [[1, 1], [1, 2], [1, 3], [2, 1], [2, 2], [3, 1]]):
        J('h_orig_cmdt', L=245 if q else 301, rewind=rw)
    if prop == 'C03':
        J('h_resp_bam', L=121, session=3)
    if prop == 'C09':
        J('h_orig_bam_busy', L=250, burst=12)
        J('h_orig_bam_two', L=181)
        J('h_orig_bam', L=301, interval='1/10', timer='2/5')
        J('h_orig_bam_two', L=121, interval='1/10', phase='3/100', mpg_limit='1/25')
        J('h_orig_cmdt', L=181, interval='1/20', other_interval='1/200')
        J('h_orig_bam', L=181, interval='1/20', other_interval='1/200')
        if not q:
            for burst in (4, 30):
                for ivl in (None, '1/20'):
                    J('h_orig_bam_busy', L=310, burst=burst, interval=ivl)
        for L in ([121, 181] if q else [61, 121, 181, 301]):
            for ivl in ([None, '1/20'] if q else [None, '1/100', '1/20', '1/10', '19/100']):
                J('h_orig_bam', L=L, interval=ivl)
            for ivl in (['1/100'] if q else ['1/1000', '1/100', '1/20']):
                J('h_orig_cmdt', L=L, interval=ivl)
    return out

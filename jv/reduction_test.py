"""reduction_test -- the interleaving reductions of DESIGN 3 against the naive scheduler.

For shapes small enough for both to finish (concrete data), the SETS of distinct final outcomes (per stack: ordered
list of deliveries, job thread state; return values of send_pgn) under the naive scheduler (every enabled event may go
next) and under the reduced one must be identical."""
import time

from . import symx, world as W
from .props.common import Stack

SHAPES = [
    ('j1939-21 15 B window 2', dict(dll='j1939-21', msgs=[('A', 'B', 15)], windows=(2, 2))),
    ('j1939-21 9 B p2p + 8 B single frame back', dict(dll='j1939-21', msgs=[('A', 'B', 9), ('B', 'A', 8)], windows=(1, 1))),
    ('j1939-21 BAM 15 B + p2p 9 B', dict(dll='j1939-21', msgs=[('A', 'G', 15), ('A', 'B', 9)], windows=(1, 1))),
    ('j1939-22 130 B windows 2/2', dict(dll='j1939-22', msgs=[('A', 'B', 130)], windows=(2, 2))),
    ('j1939-22 130 B windows 1/3', dict(dll='j1939-22', msgs=[('A', 'B', 130)], windows=(1, 3))),
]


def outcomes(shape, naive, max_paths=400000, wall=600):
    outs = set()

    def h(ex):
        w = W.World(ex, mode='interleave')
        w.naive = naive
        sa = Stack(w, 'A', 0x10, dll=shape['dll'], max_cmdt_packets=shape['windows'][0])
        sb = Stack(w, 'B', 0x20, dll=shape['dll'], max_cmdt_packets=shape['windows'][1])
        st = {'A': sa, 'B': sb}
        w.run(until=symx.T('1/100'))
        rets = []
        for i, (s, d, L) in enumerate(shape['msgs']):
            data = [(i * 50 + j) % 256 for j in range(L)]
            if d == 'G':
                rets.append(st[s].ca.send_pgn(0, 0xFE, 0x10 + i, 6, data))
            else:
                rets.append(st[s].ca.send_pgn(0, 0xD0 + i, st[d].addr, 6, data))
        w.run(until=w.now + symx.T(4))
        out = (tuple(rets),) + tuple((x.name, x.alive(), tuple(sorted((m['pgn'], m['sa'], tuple(m['data'])) for m in x.rx))) for x in (sa, sb))
        outs.add(out)
        ex.witness()

    ex = symx.Explorer(W=40, max_paths=max_paths, wall_budget=wall)
    t0 = time.time()
    status = ex.explore(h)
    return status, outs, ex.paths_done, ex.paths_aborted, time.time() - t0


def main():
    W.install()
    bad = 0
    for name, shape in SHAPES:
        s1, o1, p1, a1, t1 = outcomes(shape, naive=True)
        s2, o2, p2, a2, t2 = outcomes(shape, naive=False)
        ok = s1 == 'ok' and s2 == 'ok' and o1 == o2
        bad += 0 if ok else 1
        print('%-42s naive: %6d paths %5.1fs  reduced: %4d paths (+%d pruned) %5.1fs  outcome sets %s (%d)' % (
            name, p1, t1, p2, a2, t2, 'IDENTICAL' if o1 == o2 else 'DIFFER', len(o1)) + ('' if s1 == 'ok' and s2 == 'ok' else '  [%s / %s]' % (s1, s2)))
    return 0 if bad == 0 else 2

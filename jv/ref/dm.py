"""Independent reference for SAE J1939-73 diagnostic layouts (DM1 lamps, DTC, DM22) and DM14/15/16 fields.
Positional arithmetic only; works on ints and symx proxies."""

# --- DTC: 4 bytes, little endian image
#   byte 1: SPN bits 0-7;  byte 2: SPN bits 8-15;  byte 3: bits 5-7 = SPN bits 16-18, bits 0-4 = FMI
#   byte 4: bit 7 = conversion method, bits 0-6 = occurrence count
def dtc_bytes(spn, fmi, oc, cm=0):
    return [spn % 256, (spn // 256) % 256, ((spn // 65536) % 8) * 32 + fmi % 32, cm * 128 + oc % 128]


def dtc_value(spn, fmi, oc, cm=0):
    b = dtc_bytes(spn, fmi, oc, cm)
    return b[0] + b[1] * 2 ** 8 + b[2] * 2 ** 16 + b[3] * 2 ** 24


def dtc_fields(raw):
    b = [(raw // 2 ** (8 * i)) % 256 for i in range(4)]
    spn = b[0] + b[1] * 256 + (b[2] // 32) * 65536
    return {'spn': spn, 'fmi': b[2] % 32, 'oc': b[3] % 128, 'cm': b[3] // 128}


# --- DM1 lamp bytes.  byte 1 lamp status, byte 2 flash; 2 bits each: protect (bits 0-1), amber warning (2-3),
#     red stop (4-5), MIL (6-7).  status 0 off / 1 on / 3 not available; flash 0 slow / 1 fast / 3 no flash
LAMP_ORDER = ['pl', 'awl', 'rsl', 'mil']
OFF, ON, SLOW, FAST, NA = 0, 1, 2, 3, 4
LAMP_BITS = {OFF: (0, 3), ON: (1, 3), SLOW: (1, 0), FAST: (1, 1), NA: (3, 3)}


def lamp_bytes(states):
    """states: dict key -> concrete state"""
    b1 = b2 = 0
    for i, k in enumerate(LAMP_ORDER):
        lamp, flash = LAMP_BITS[states.get(k, OFF)]
        b1 += lamp * 4 ** i
        b2 += flash * 4 ** i
    return [b1, b2]


def dm1_payload(states, dtcs):
    out = lamp_bytes(states)
    for d in dtcs:
        out += dtc_bytes(d['spn'], d['fmi'], d.get('oc', 0))
    return out


# --- DM22 (PGN 0xC300): byte 1 control, bytes 2-5 FF, byte 6 SPN bits 0-7, byte 7 SPN bits 8-15,
#     byte 8: bits 5-7 = SPN bits 16-18, bits 0-4 = FMI
def dm22_request(control, spn, fmi):
    return [control, 0xFF, 0xFF, 0xFF, 0xFF, spn % 256, (spn // 256) % 256, ((spn // 65536) % 8) * 32 + fmi % 32]

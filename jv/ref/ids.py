"""Independent reference for identifier / PGN / NAME layouts (SAE J1939-21 5.2, J1939-81 4.1.1).

Written from the field tables with positional arithmetic (multiplication / division by powers of two),
not by reading the code under test.  Works on ints and on symx proxies alike."""

# 29-bit identifier:  priority(3) | EDP(1) DP(1) PF(8) PS(8) | SA(8)
def id_fields(can_id):
    sa = can_id % 256
    ps = (can_id // 2 ** 8) % 256
    pf = (can_id // 2 ** 16) % 256
    dp = (can_id // 2 ** 24) % 2
    edp = (can_id // 2 ** 25) % 2
    prio = (can_id // 2 ** 26) % 8
    return {'prio': prio, 'edp': edp, 'dp': dp, 'pf': pf, 'ps': ps, 'sa': sa}


def id_compose(prio, pgn18, sa):
    return prio * 2 ** 26 + pgn18 * 2 ** 8 + sa


def pgn_compose(dp, pf, ps):
    return dp * 2 ** 16 + pf * 2 ** 8 + ps


def is_pdu1(pf):
    return pf < 240


# NAME: (field, least significant bit position, width) per J1939-81
NAME_FIELDS = [
    ('identity_number', 0, 21),
    ('manufacturer_code', 21, 11),
    ('ecu_instance', 32, 3),
    ('function_instance', 35, 5),
    ('function', 40, 8),
    ('reserved_bit', 48, 1),
    ('vehicle_system', 49, 7),
    ('vehicle_system_instance', 56, 4),
    ('industry_group', 60, 3),
    ('arbitrary_address_capable', 63, 1),
]


def name_field(value, field):
    for f, pos, width in NAME_FIELDS:
        if f == field:
            return (value // 2 ** pos) % 2 ** width
    raise KeyError(field)


def name_compose(fields):
    total = 0
    for f, pos, width in NAME_FIELDS:
        total = total + fields.get(f, 0) * 2 ** pos
    return total


def name_bytes(value):
    return [(value // 2 ** (8 * i)) % 256 for i in range(8)]

"""Independent reference for SAE J1939-21 transport protocol frames (section 5.10).

TP.CM  PGN 0xEC00 (60416), TP.DT PGN 0xEB00 (60160); both PDU1 (destination in PS), priority 7 default.
TP.CM byte 1 control: 16 RTS, 17 CTS, 19 EndOfMsgACK, 32 BAM, 255 Conn_Abort.
  RTS : 16, size lo, size hi, total packets, max packets per CTS, PGN lo, PGN mid, PGN hi
  CTS : 17, packets that can be sent, next packet number, FF, FF, PGN(3)
  EOMA: 19, size lo, size hi, total packets, FF, PGN(3)
  BAM : 32, size lo, size hi, total packets, FF, PGN(3)
  ABRT: 255, reason, FF, FF, FF, PGN(3)
TP.DT: sequence number 1..255, 7 data bytes, unused bytes of the last packet = FF.
Works on ints and symx proxies."""
from .ids import id_fields

PF_CM, PF_DT = 0xEC, 0xEB
RTS, CTS, EOMA, BAM, ABORT = 16, 17, 19, 32, 255


def npackets(size):
    return (size + 6) // 7


def pgn_bytes(pgn):
    return [pgn % 256, (pgn // 256) % 256, (pgn // 65536) % 256]


def pgn_of(b):
    return b[0] + b[1] * 256 + b[2] * 65536


def can_id(prio, pf, ps, sa, dp=0):
    return prio * 2 ** 26 + dp * 2 ** 24 + pf * 2 ** 16 + ps * 2 ** 8 + sa


def rts(size, limit, pgn):
    return [RTS, size % 256, size // 256, npackets(size), limit] + pgn_bytes(pgn)


def cts(n, nxt, pgn):
    return [CTS, n, nxt, 0xFF, 0xFF] + pgn_bytes(pgn)


def eoma(size, pgn):
    return [EOMA, size % 256, size // 256, npackets(size), 0xFF] + pgn_bytes(pgn)


def bam(size, pgn):
    return [BAM, size % 256, size // 256, npackets(size), 0xFF] + pgn_bytes(pgn)


def abort(reason, pgn):
    return [ABORT, reason, 0xFF, 0xFF, 0xFF] + pgn_bytes(pgn)


def dt(seq, payload):
    """seq is 1-based"""
    chunk = list(payload[(seq - 1) * 7: seq * 7])
    return [seq] + chunk + [0xFF] * (7 - len(chunk))


def classify(frame):
    """-> dict(kind=..., sa, da, prio, ...) for a logged bus frame (ids concrete or symbolic)"""
    f = id_fields(frame['id'])
    return f

"""Independent reference for SAE J1939-22 (CAN FD) layouts, kept to the fields the properties name.

Multi-PG (FEFF): PGN 0x2500 (9472), PDU1, destination in PS.  Data = sequence of contained parameter groups
(C-PG), each with a 4 byte header:  byte 0: TOS (bits 7-5) | TF (bits 4-2) | CPGN bits 17-16 (bits 1-0);
byte 1: CPGN bits 15-8; byte 2: CPGN bits 7-0; byte 3: payload length;  then the payload.  TOS 0 = padding.
FD.TP.CM PGN 0x4D00, FD.TP.DT PGN 0x4E00 (PDU1).
FD.TP.CM byte 0: control (low nibble: 0 RTS, 1 CTS, 2 EOMS, 3 EOMA, 4 BAM, 15 abort) | session (high nibble);
  bytes 1-3 message size (24 bit LE); bytes 4-6 total segments / next segment (24 bit LE); byte 7 max segments / segments granted;
  bytes 9-11 PGN (LE).
FD.TP.DT byte 0: DTFI (low nibble) | session (high nibble); bytes 1-3 segment number (24 bit LE, 1-based); up to 60 data bytes,
  the last one padded with 0xFF to a legal CAN FD length."""

FD_LENGTHS = (0, 1, 2, 3, 4, 5, 6, 7, 8, 12, 16, 20, 24, 32, 48, 64)
PF_MPG, PF_CM, PF_DT = 0x25, 0x4D, 0x4E
RTS, CTS, EOMS, EOMA, BAM, ABORT = 0, 1, 2, 3, 4, 15


def next_fd_length(n):
    for l in FD_LENGTHS:
        if l >= n:
            return l
    return None


def nsegments(size):
    return (size + 59) // 60


def le24(v):
    return [v % 256, (v // 256) % 256, (v // 65536) % 256]


def mpg_decode(data, branch=bool):
    """-> list of (tos, tf, cpgn, payload) ; stops at padding (TOS 0) or when fewer than 5 bytes remain.
    `branch` decides symbolic conditions (forks under symbolic execution)."""
    out = []
    i = 0
    n = len(data)
    while n - i > 4:
        b0 = data[i]
        tos = b0 // 32
        if branch(tos == 0):
            break
        tf = (b0 // 4) % 8
        cpgn = (b0 % 4) * 65536 + data[i + 1] * 256 + data[i + 2]
        ln = data[i + 3]
        ln = int(ln)
        out.append((tos, tf, cpgn, list(data[i + 4:i + 4 + ln])))
        i += 4 + ln
    return out, i


def mpg_frame(groups):
    """groups: list of (cpgn, payload) -> multi-PG frame body (TOS 2, trailer format 0), padded to a legal FD length
    with padding service bytes (TOS 0)"""
    body = []
    for cpgn, payload in groups:
        body += [2 * 32 + (cpgn // 65536) % 4, (cpgn // 256) % 256, cpgn % 256, len(payload)] + list(payload)
    return body + [0x00] * (next_fd_length(len(body)) - len(body))


def dt_frame(session, seg, payload):
    """seg 1-based"""
    chunk = list(payload[(seg - 1) * 60: seg * 60])
    body = [session * 16, ] + le24(seg) + chunk
    return body + [0xFF] * (next_fd_length(len(body)) - len(body))


def cm_frame(ctrl, session, size, seg, b7, b8, pgn):
    return [ctrl + session * 16] + le24(size) + le24(seg) + [b7, b8] + le24(pgn)

"""runner -- jobs, worker processes, concrete replay, known findings, evidence."""
import hashlib
import importlib
import json
import multiprocessing as mp
import os
import signal
import subprocess
import sys
import time
import traceback

VERIF = os.path.dirname(os.path.dirname(os.path.abspath(__file__)))
REPO = os.environ.get('JV_REPO', '/repo')
EXIT_OK, EXIT_VIOLATION, EXIT_INCONCLUSIVE = 0, 1, 2


class Job:
    """one exhaustive exploration of one harness instance"""

    def __init__(self, prop, harness, params=None, W=40, max_paths=20000, wall=300.0, label=None,
                 bounds=None, validate=2, partial_ok=False, conc_cap=4096, cross=False):
        self.prop = prop
        self.harness = harness          # 'module:function' below jv.props
        self.params = params or {}
        self.W = W
        self.max_paths = max_paths
        self.wall = wall
        self.label = label or (harness + ' ' + json.dumps(self.params, sort_keys=True))
        self.bounds = bounds
        self.validate = validate        # number of passing paths cross-validated concretely
        self.partial_ok = partial_ok    # explicitly sampled (non exhaustive) part
        self.conc_cap = conc_cap
        self.cross = cross              # second solver (cvc5) on every claim query

    def as_dict(self):
        return dict(self.__dict__)


def resolve(harness):
    modname, fn = harness.split(':')
    mod = importlib.import_module('jv.props.' + modname)
    return getattr(mod, fn)


_encoded = set()


def _start_monitoring():
    try:
        mon = sys.monitoring
        tool = mon.COVERAGE_ID
        try:
            mon.use_tool_id(tool, 'jv-functions')
        except ValueError:
            return
        prefix = os.path.join(REPO, 'j1939') + os.sep

        def on_start(code, off):
            fn = code.co_filename
            if fn.startswith(prefix):
                _encoded.add(fn[len(prefix):] + ':' + code.co_qualname)
            return mon.DISABLE

        mon.register_callback(tool, mon.events.PY_START, on_start)
        mon.set_events(tool, mon.events.PY_START)
    except Exception:
        pass


class _Alarm(BaseException):
    pass


def _on_alarm(sig, frm):
    raise _Alarm()


def replay_concrete(job_dict, values, choices):
    """run the harness once with plain Python values; returns (failed oracle list, explorer)"""
    from . import symx, world
    world.install()
    fn = resolve(job_dict['harness'])
    ex = symx.Explorer(W=job_dict['W'], concrete={'values': values, 'choices': choices})
    failed = ex.run_concrete(lambda e: fn(e, **job_dict['params']))
    return failed, ex


def run_job(jd):
    """executed in a worker process; returns a JSON-able result dict"""
    from . import symx, world
    world.install()
    _start_monitoring()
    t0 = time.time()
    res = {'job': jd, 'status': 'ok', 'violations': [], 'error': None}
    try:
        fn = resolve(jd['harness'])
        ex = symx.Explorer(W=jd['W'], max_paths=jd['max_paths'], wall_budget=jd['wall'], conc_cap=jd.get('conc_cap', 4096))
        ex.cross = bool(jd.get('cross'))
        validated = [0]
        mismatches = []
        samples = []

        def on_path_end(e):
            need_val = validated[0] < jd['validate']
            if not need_val and len(samples) >= 2:
                return
            vals = e.path_model()
            if len(samples) < 2:
                samples.append({'inputs': _short(vals), 'decisions': len(e.trace),
                                'observed': _short_obs(e.eval_obs(vals))})
            if need_val:
                sym_obs = e.eval_obs(vals)
                choices = {str(t[1]): t[2] for t in e.trace if t[0] == 'ch'}
                failed, ex2 = replay_concrete(jd, vals, choices)
                con_obs = ex2.eval_obs({})
                if failed or json.dumps(sym_obs, sort_keys=True, default=str) != json.dumps(con_obs, sort_keys=True, default=str):
                    mismatches.append({'values': vals, 'failed': [f[0] for f in failed],
                                       'sym': _short_obs(sym_obs, 40), 'con': _short_obs(con_obs, 40)})
                validated[0] += 1

        def after_path(e, vs):
            for v in vs:
                try:
                    failed, ex2 = replay_concrete(jd, v.values, v.choices)
                    v.reproduced = v.oracle in [f[0] for f in failed]
                    v.replay_note = 'concrete replay failed oracles: %s' % [f[0] for f in failed]
                    v.failed_info = [f[1] for f in failed if f[0] == v.oracle][:1]
                except symx.EngineSignal as x:
                    v.reproduced = False
                    v.replay_note = 'concrete replay aborted: %r' % (x,)
                except Exception as x:  # harness error in replay
                    v.reproduced = False
                    v.replay_note = 'concrete replay raised: %s' % traceback.format_exc(limit=6)

        signal.signal(signal.SIGALRM, _on_alarm)
        signal.alarm(int(jd['wall'] * 2) + 30)
        try:
            status = ex.explore(lambda e: fn(e, **jd['params']), on_path_end=on_path_end, after_path=after_path)
        finally:
            signal.alarm(0)
        res['status'] = status
        for v in ex.violations:
            res['violations'].append({'oracle': v.oracle, 'values': v.values, 'choices': v.choices,
                                      'info': _jsonable(v.info), 'reproduced': v.reproduced,
                                      'replay_note': v.replay_note,
                                      'failed_info': _jsonable(getattr(v, 'failed_info', None))})
        res.update({
            'paths': ex.paths_done, 'aborted': ex.paths_aborted, 'stopped': ex.paths_stopped,
            'decisions': ex.decisions, 'forks': ex.forks, 'sat': ex.n_sat, 'unsat': ex.n_unsat,
            'unknown': ex.n_unknown, 'cached': ex.n_cached, 'cross': ex.n_cross, 'solver_time': round(ex.solver_time, 3),
            'witness': ex.witness_reached, 'claims': {k: c.as_dict() for k, c in ex.claims.items()},
            'validated': validated[0], 'mismatches': mismatches[:3], 'samples': samples,
            'notes': ex.notes,
        })
        if mismatches:
            res['status'] = 'inconclusive:symbolic path and concrete run of the real code disagree'
        elif status == 'ok' and ex.witness_reached == 0 and not ex.violations:
            res['status'] = 'inconclusive:vacuous (no path reached the end of the harness)'
    except _Alarm:
        res['status'] = 'inconclusive:hard wall limit'
    except BaseException as e:
        res['status'] = 'inconclusive:harness/engine error'
        res['error'] = traceback.format_exc(limit=12)
    res['wall'] = round(time.time() - t0, 3)
    res['functions'] = sorted(_encoded)
    return res


def _jsonable(o):
    try:
        json.dumps(o)
        return o
    except Exception:
        return repr(o)


def _short(vals, n=24):
    items = list(vals.items())
    if len(items) <= n:
        return dict(items)
    d = dict(items[:n])
    d['...'] = '%d more' % (len(items) - n)
    return d


def _short_obs(obs, n=12):
    out = obs[:n]
    if len(obs) > n:
        out = out + [['...', '%d more' % (len(obs) - n)]]
    return out


# --------------------------------------------------------------------------- known findings
def load_known():
    p = os.path.join(VERIF, 'known_findings.json')
    if not os.path.exists(p):
        return []
    with open(p) as f:
        return json.load(f).get('findings', [])


def _subset(sub, full):
    if not isinstance(sub, dict):
        return sub == full
    if not isinstance(full, dict):
        return False
    for k, v in sub.items():
        if k not in full or not _subset(v, full[k]):
            return False
    return True


def match_known(known, prop, jd, viol):
    for f in known:
        if f.get('status', 'known') != 'known':
            continue  # 'fixed' entries suppress nothing
        if f['property'] != prop or f['oracle'] != viol['oracle']:
            continue
        m = f.get('match', {})
        if 'harness' in m and m['harness'] != jd['harness']:
            continue
        if 'params' in m and not _subset(m['params'], jd['params']):
            continue
        if 'info' in m:
            info = (viol.get('failed_info') or [None])[0]
            if info is None:
                info = viol.get('info')
            if not _subset(m['info'], info):
                continue
        return f
    return None


# --------------------------------------------------------------------------- check driver
def repo_state():
    try:
        head = subprocess.run(['git', '-C', REPO, 'rev-parse', 'HEAD'], capture_output=True, text=True).stdout.strip()
        diff = subprocess.run(['git', '-C', REPO, 'diff', 'HEAD', '--', 'j1939'], capture_output=True, text=True).stdout
        return head, hashlib.sha256(diff.encode()).hexdigest()[:16] if diff else 'clean'
    except Exception:
        return 'unknown', 'unknown'


def run_check(prop, tier, jobs, meta, nproc=None):
    """run all jobs, write evidence, print verdict lines, return exit code"""
    from . import evidence
    t0 = time.time()
    seed = int(os.environ.get('VERIF_SEED', '0') or 0)
    nproc = nproc or int(os.environ.get('JV_PROCS', '0') or 0) or min(16, os.cpu_count() or 4)
    jds = [j.as_dict() for j in jobs]
    # longest first
    order = sorted(range(len(jds)), key=lambda i: -jds[i]['wall'])
    results = [None] * len(jds)
    if nproc == 1 or len(jds) == 1:
        for i in order:
            results[i] = run_job(jds[i])
    else:
        ctx = mp.get_context('fork')
        with ctx.Pool(min(nproc, len(jds)), maxtasksperchild=8) as pool:
            handles = {i: pool.apply_async(run_job, (jds[i],)) for i in order}
            for i, h in handles.items():
                try:
                    results[i] = h.get(timeout=jds[i]['wall'] * 2 + 120)
                except mp.TimeoutError:
                    results[i] = {'job': jds[i], 'status': 'inconclusive:worker timeout', 'violations': [],
                                  'error': None, 'wall': jds[i]['wall'] * 2 + 120, 'functions': []}
                except Exception as e:
                    results[i] = {'job': jds[i], 'status': 'inconclusive:worker crashed %r' % (e,), 'violations': [],
                                  'error': None, 'wall': 0, 'functions': []}
    known = load_known()
    exit_code = EXIT_OK
    new_viol = []
    known_hits = {}
    inconclusive = []
    os.makedirs(os.environ.get('JV_REPLAY_DIR') or os.path.join(VERIF, 'replays'), exist_ok=True)
    for r in results:
        jd = r['job']
        st = r['status']
        for v in r['violations']:
            if not v.get('reproduced'):
                inconclusive.append('%s: counterexample for %s did not reproduce concretely (%s)' % (jd['label'], v['oracle'], v.get('replay_note')))
                continue
            f = match_known(known, prop, jd, v)
            if f is not None:
                known_hits.setdefault(f['id'], [f, 0])[1] += 1
                continue
            path = write_replay(prop, jd, v)
            new_viol.append((path, jd, v))
        if st.startswith('inconclusive'):
            if jd.get('partial_ok') and ('budget' in st):
                continue
            inconclusive.append('%s: %s%s' % (jd['label'], st, ('\n' + r['error']) if r.get('error') else ''))
    for fid, (f, n) in sorted(known_hits.items()):
        print('KNOWN-FINDING: property=%s %s [%s; %d counterexample(s) this run]' % (prop, f['what'], fid, n))
    for path, jd, v in new_viol:
        print('VIOLATION property=%s replay=%s' % (prop, path))
        print('  oracle=%s harness=%s params=%s' % (v['oracle'], jd['harness'], json.dumps(jd['params'], sort_keys=True)))
    if new_viol:
        exit_code = EXIT_VIOLATION
    elif inconclusive:
        exit_code = EXIT_INCONCLUSIVE
    for s in inconclusive[:20]:
        print('INCONCLUSIVE %s' % s)
    wall = time.time() - t0
    evidence.write(prop, tier, seed, results, meta, wall, len(new_viol), known_hits, inconclusive)
    tot_paths = sum(r.get('paths', 0) for r in results)
    tot_q = sum(r.get('sat', 0) + r.get('unsat', 0) for r in results)
    print('%s %s: %d jobs, %d paths closed, %d solver queries, %.1fs wall, exit %d' % (prop, tier, len(results), tot_paths, tot_q, wall, exit_code))
    return exit_code


def write_replay(prop, jd, v):
    blob = {'property': prop, 'harness': jd['harness'], 'params': jd['params'], 'W': jd['W'],
            'oracle': v['oracle'], 'values': v['values'], 'choices': v['choices'], 'info': v.get('info'),
            'failed_info': v.get('failed_info'), 'replay_note': v.get('replay_note')}
    h = hashlib.sha256(json.dumps(blob, sort_keys=True, default=str).encode()).hexdigest()[:12]
    path = os.path.join(os.environ.get('JV_REPLAY_DIR') or os.path.join(VERIF, 'replays'), '%s-%s.json' % (prop, h))
    with open(path, 'w') as f:
        json.dump(blob, f, indent=1, default=str)
    return path


def replay_file(path, verbose=True):
    with open(path) as f:
        blob = json.load(f)
    jd = {'harness': blob['harness'], 'params': blob['params'], 'W': blob.get('W', 40)}
    os.environ['JV_VERBOSE_REPLAY'] = '1'
    failed, ex = replay_concrete(jd, blob['values'], blob['choices'])
    print('replay of %s (%s %s)' % (path, blob['harness'], json.dumps(blob['params'], sort_keys=True)))
    print('inputs: %s' % json.dumps(_short(blob['values'], 60)))
    for l, o in ex.eval_obs({}):
        print('  obs %-10s %s' % (l, json.dumps(o, default=str)[:300]))
    print('failed oracles: %s' % [f[0] for f in failed])
    for f in failed:
        print('  %s: %s' % (f[0], json.dumps(_jsonable(f[1]), default=str)[:600]))
    ok = blob['oracle'] in [f[0] for f in failed]
    print('REPRODUCED' if ok else 'NOT REPRODUCED on this tree')
    return 1 if ok else 0

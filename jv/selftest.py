"""selftest -- differential validation of the proxy operator table against Python ints.

Every case pins two symbolic variables by assumption, applies the proxy operator and asks the
solver whether the result can differ from what CPython computes on the plain ints."""
import operator
import random

from . import symx
from .symx import Explorer, sym_from_bytes, IntShim

OPS = [
    ('add', operator.add), ('sub', operator.sub), ('mul', operator.mul), ('and', operator.and_),
    ('or', operator.or_), ('xor', operator.xor), ('lt', operator.lt), ('le', operator.le),
    ('gt', operator.gt), ('ge', operator.ge), ('eq', operator.eq), ('ne', operator.ne),
]
SHIFT = [('lshift', operator.lshift), ('rshift', operator.rshift)]
DIV = [('floordiv', operator.floordiv), ('mod', operator.mod)]
BOUND = [0, 1, 2, 3, 7, 8, 127, 128, 255, 256, 0x7FFF, 0xFFFF, 0x10000, 0x3FFFF, 0xFFFFF, -1, -2, -128, -255, -256, -65536]


def _cases(n, seed):
    rnd = random.Random(seed)
    vals = list(BOUND)
    out = []
    for name, fn in OPS:
        for _ in range(n):
            a, b = rnd.choice(vals), rnd.choice(vals)
            if rnd.random() < 0.4:
                a = rnd.randint(-(1 << 18), 1 << 18)
            if rnd.random() < 0.4:
                b = rnd.randint(-(1 << 18), 1 << 18)
            if name == 'mul':
                a, b = max(-(1 << 17), min(a, 1 << 17)), max(-(1 << 17), min(b, 1 << 17))
            out.append((name, fn, a, b))
    for name, fn in SHIFT:
        for _ in range(n):
            out.append((name, fn, rnd.choice(vals), rnd.randint(0, 17)))
    for name, fn in DIV:
        for _ in range(n):
            out.append((name, fn, abs(rnd.choice(vals)), rnd.choice([1, 2, 3, 7, 8, 60, 255, 256, 1000])))
    return out


def run(n, seed=1):
    cases = _cases(n, seed)
    failures = []
    count = [0]

    def h(ex):
        for name, fn, a, b in cases:
            x = ex.fresh_int('x', -(1 << 20) - 1, (1 << 20) + 1)
            if name in ('lshift', 'rshift'):
                y = ex.fresh_int('k', 0, 17)
            elif name in ('floordiv', 'mod'):
                y = ex.fresh_int('d', 1, 1000)
            else:
                y = ex.fresh_int('y', -(1 << 20) - 1, (1 << 20) + 1)
            ex.assume(x == a)
            ex.assume(y == b)
            for l, r, tag in ((x, y, 'ss'), (x, b, 'sc'), (a, y, 'cs')):
                want = fn(a, b)
                got = fn(l, r)
                ok = ex.claim('op', got == want)
                count[0] += 1
                if not ok:
                    failures.append('%s(%d,%d) %s' % (name, a, b, tag))
        # unary, to_bytes, from_bytes
        for a in BOUND:
            x = ex.fresh_int('u', -(1 << 20) - 1, (1 << 20) + 1)
            ex.assume(x == a)
            for nm, f in (('neg', operator.neg), ('inv', operator.invert), ('abs', abs)):
                count[0] += 1
                if not ex.claim('op', f(x) == f(a)):
                    failures.append('%s(%d)' % (nm, a))
            if a >= 0:
                for order in ('little', 'big'):
                    bs = x.to_bytes(4, order)
                    want = list(a.to_bytes(4, order))
                    count[0] += 1
                    if not ex.claim('op', symx.sym_eq_seq(bs, want)):
                        failures.append('to_bytes(%d,%s)' % (a, order))
                    for signed in (False, True):
                        back = sym_from_bytes(bs, order, signed)
                        count[0] += 1
                        if not ex.claim('op', back == int.from_bytes(bytes(want), order, signed=signed)):
                            failures.append('from_bytes(%d,%s,%s)' % (a, order, signed))
        for a in (0x80, 0xFF, 0x7F, 0x8000, 0xFFFF):
            x = ex.fresh_int('s', 0, 0xFFFF)
            ex.assume(x == a)
            bs = [x & 0xFF, x >> 8]
            count[0] += 1
            if not ex.claim('op', IntShim.from_bytes(bs, byteorder='little', signed=True) == int.from_bytes(bytes([a & 0xFF, a >> 8]), 'little', signed=True)):
                failures.append('from_bytes signed %d' % a)
        ex.witness()

    ex = Explorer(W=64, max_paths=50, wall_budget=300)
    st = ex.explore(h)
    if st != 'ok' or ex.paths_done != 1:
        failures.append('self-test exploration: %s (%d paths)' % (st, ex.paths_done))
    for v in ex.violations:
        pass
    return count[0], failures


def quick():
    n, failures = run(3)
    return '; '.join(failures[:5]) if failures else None


def main():
    n, failures = run(40, seed=7)
    print('operator self-test: %d comparisons, %d failures' % (n, len(failures)))
    for f in failures[:20]:
        print('  FAIL', f)
    from . import reduction_test
    rc = reduction_test.main()
    return 0 if not failures and rc == 0 else 2

"""symx -- proxy based symbolic execution of the real /repo/j1939 code objects over z3.

The real functions are executed by CPython itself; ints that matter are replaced by SInt
proxies (z3 bit-vectors of a fixed width W with a conservative interval that proves that no
wrap-around can happen), time instants by STime (exact rationals / z3 Reals), comparison results
by SBool.  A branch on a proxy asks the solver which sides are feasible under the path condition
and forks depth-first by re-execution of the recorded decision prefix.  claim() asks the solver
for a model of  pc /\\ not(claim).

All control-flow exceptions of the engine derive from BaseException so that `except Exception`
handlers in the code under test (MessageListener.on_message_received) cannot swallow them.
"""
import sys
import time as _time
from fractions import Fraction

import z3

CUR = None  # the active Explorer (one per process at any time)


# --------------------------------------------------------------------------- exceptions
class EngineSignal(BaseException):
    pass


class PathAbort(EngineSignal):
    """assumption infeasible on this path / path pruned as redundant"""


class PathStop(EngineSignal):
    """path closed early after a violation that cannot be assumed away"""


class EngineLimit(EngineSignal):
    """the engine cannot model something within its bounds -> inconclusive, never a pass"""


class Inconclusive(EngineSignal):
    """solver said unknown / budget exhausted"""


class EngineError(EngineSignal):
    """internal inconsistency (e.g. divergence on re-execution)"""


# --------------------------------------------------------------------------- helpers
def _bl(n):
    return int(n).bit_length()


def _fits(lo, hi):
    W = CUR.W
    lim = 1 << (W - 1)
    if lo < -lim or hi >= lim:
        raise EngineLimit("integer interval [%d,%d] leaves the %d-bit window" % (lo, hi, W))


def _bv(v):
    return z3.BitVecVal(v, CUR.W)


_EMPTY = frozenset()


def _mk(e, lo, hi, vs):
    if lo == hi:
        return lo
    if lo > hi:
        raise EngineError("empty interval")
    _fits(lo, hi)
    return SInt(e, lo, hi, vs)


def _coerce(o):
    """-> (expr, lo, hi, vs) or None"""
    if type(o) is SInt:
        return o.e, o.lo, o.hi, o.vs
    if type(o) is int or type(o) is bool:
        o = int(o)
        return _bv(o), o, o, _EMPTY
    if type(o) is SBool:
        return z3.If(o.e, _bv(1), _bv(0)), 0, 1, o.vs
    if isinstance(o, int):
        o = int(o)
        return _bv(o), o, o, _EMPTY
    return None


def is_sym(x):
    t = type(x)
    if t is SInt or t is SBool:
        return True
    if t is STime:
        return x.c is None
    return False


# --------------------------------------------------------------------------- SBool
class SBool:
    """tie: for comparisons of two symbolic instants, the condition 'both are equal' (see
    Explorer.branch: exact ties between symbolic instants are assumed away)"""
    __slots__ = ('e', 'vs', 'tie')

    def __init__(self, e, vs, tie=None):
        self.e = e
        self.vs = vs
        self.tie = tie

    def __bool__(self):
        return CUR.branch(self.e, self.vs, self.tie)

    @staticmethod
    def _co(o):
        if type(o) is SBool:
            return o.e, o.vs
        if type(o) is bool:
            return z3.BoolVal(o), _EMPTY
        return None

    def __and__(self, o):
        c = SBool._co(o)
        if c is None:
            return NotImplemented
        return SBool(z3.And(self.e, c[0]), self.vs | c[1])

    __rand__ = __and__

    def __or__(self, o):
        c = SBool._co(o)
        if c is None:
            return NotImplemented
        return SBool(z3.Or(self.e, c[0]), self.vs | c[1])

    __ror__ = __or__

    def __xor__(self, o):
        c = SBool._co(o)
        if c is None:
            return NotImplemented
        return SBool(z3.Xor(self.e, c[0]), self.vs | c[1])

    __rxor__ = __xor__

    def __invert__(self):
        return SBool(z3.Not(self.e), self.vs, self.tie)

    def __eq__(self, o):
        c = SBool._co(o)
        if c is None:
            ci = _coerce(o)
            if ci is None:
                return False
            me = _coerce(self)
            return SBool(me[0] == ci[0], self.vs | ci[3])
        return SBool(self.e == c[0], self.vs | c[1])

    def __ne__(self, o):
        r = self.__eq__(o)
        if r is False:
            return True
        return ~r

    def __hash__(self):
        return hash(bool(self))

    def __index__(self):
        return 1 if bool(self) else 0

    __int__ = __index__

    # arithmetic on a bool behaves like the int 0/1
    def _as_int(self):
        return SInt(z3.If(self.e, _bv(1), _bv(0)), 0, 1, self.vs)

    def __add__(self, o):
        return self._as_int() + o

    def __radd__(self, o):
        return o + self._as_int()

    def __lshift__(self, o):
        return self._as_int() << o

    def __mul__(self, o):
        return self._as_int() * o

    __rmul__ = __mul__

    def __repr__(self):
        return '<symbool>'

    __str__ = __repr__

    def __format__(self, spec):
        return '<symbool>'


def sym_not(b):
    if type(b) is SBool:
        return ~b
    return not b


def sym_and(*bs):
    """conjunction that does not fork"""
    es = []
    vs = _EMPTY
    for b in bs:
        if type(b) is SBool:
            es.append(b.e)
            vs = vs | b.vs
        elif not b:
            return False
    if not es:
        return True
    return SBool(z3.And(*es) if len(es) > 1 else es[0], vs)


def sym_or(*bs):
    es = []
    vs = _EMPTY
    for b in bs:
        if type(b) is SBool:
            es.append(b.e)
            vs = vs | b.vs
        elif b:
            return True
    if not es:
        return False
    return SBool(z3.Or(*es) if len(es) > 1 else es[0], vs)


def sym_implies(a, b):
    return sym_or(sym_not(a), b)


def sym_ite(c, a, b):
    """if-then-else over ints without forking"""
    if type(c) is not SBool:
        return a if c else b
    ca, cb = _coerce(a), _coerce(b)
    return _mk(z3.If(c.e, ca[0], cb[0]), min(ca[1], cb[1]), max(ca[2], cb[2]), c.vs | ca[3] | cb[3])


def sym_eq_seq(a, b):
    """element-wise equality of two sequences as one non-forking condition"""
    if len(a) != len(b):
        return False
    conds = []
    for x, y in zip(a, b):
        r = (x == y)
        if r is False:
            return False
        if r is True:
            continue
        if r is NotImplemented:
            return False
        conds.append(r)
    return sym_and(*conds)


# --------------------------------------------------------------------------- SInt
class SInt:
    """symbolic Python int.  e: BitVec(W) term, [lo,hi] conservative interval, vs: variable names"""
    __slots__ = ('e', 'lo', 'hi', 'vs')

    def __init__(self, e, lo, hi, vs):
        self.e = e
        self.lo = lo
        self.hi = hi
        self.vs = vs

    # ---- arithmetic
    def __add__(self, o):
        c = _coerce(o)
        if c is None:
            return NotImplemented
        return _mk(self.e + c[0], self.lo + c[1], self.hi + c[2], self.vs | c[3])

    __radd__ = __add__

    def __sub__(self, o):
        c = _coerce(o)
        if c is None:
            return NotImplemented
        return _mk(self.e - c[0], self.lo - c[2], self.hi - c[1], self.vs | c[3])

    def __rsub__(self, o):
        c = _coerce(o)
        if c is None:
            return NotImplemented
        return _mk(c[0] - self.e, c[1] - self.hi, c[2] - self.lo, self.vs | c[3])

    def __mul__(self, o):
        c = _coerce(o)
        if c is None:
            return NotImplemented
        ps = (self.lo * c[1], self.lo * c[2], self.hi * c[1], self.hi * c[2])
        return _mk(self.e * c[0], min(ps), max(ps), self.vs | c[3])

    __rmul__ = __mul__

    def __neg__(self):
        return _mk(-self.e, -self.hi, -self.lo, self.vs)

    def __pos__(self):
        return self

    def __invert__(self):
        return _mk(~self.e, -self.hi - 1, -self.lo - 1, self.vs)

    def __abs__(self):
        if self.lo >= 0:
            return self
        if self.hi < 0:
            return -self
        return self if (self >= 0) else -self

    # ---- bit operations (Python semantics on unbounded two's complement)
    def __and__(self, o):
        c = _coerce(o)
        if c is None:
            return NotImplemented
        if self.lo >= 0 and c[1] >= 0:
            lo, hi = 0, min(self.hi, c[2])
        elif self.lo >= 0:
            lo, hi = 0, self.hi
        elif c[1] >= 0:
            lo, hi = 0, c[2]
        else:
            k = max(_bl(self.lo), _bl(c[1]), _bl(self.hi), _bl(c[2]))
            lo, hi = -(1 << k), max(self.hi, c[2])
        if lo == hi:
            return lo
        return _mk(self.e & c[0], lo, hi, self.vs | c[3])

    __rand__ = __and__

    def __or__(self, o):
        c = _coerce(o)
        if c is None:
            return NotImplemented
        if self.lo >= 0 and c[1] >= 0:
            lo, hi = max(self.lo, c[1]), (1 << max(_bl(self.hi), _bl(c[2]))) - 1
        else:
            k = max(_bl(self.lo), _bl(c[1]), _bl(self.hi), _bl(c[2]))
            lo, hi = -(1 << k), (1 << k) - 1
        return _mk(self.e | c[0], lo, hi, self.vs | c[3])

    __ror__ = __or__

    def __xor__(self, o):
        c = _coerce(o)
        if c is None:
            return NotImplemented
        if self.lo >= 0 and c[1] >= 0:
            lo, hi = 0, (1 << max(_bl(self.hi), _bl(c[2]))) - 1
        else:
            k = max(_bl(self.lo), _bl(c[1]), _bl(self.hi), _bl(c[2]))
            lo, hi = -(1 << k), (1 << k) - 1
        return _mk(self.e ^ c[0], lo, hi, self.vs | c[3])

    __rxor__ = __xor__

    def __lshift__(self, o):
        c = _coerce(o)
        if c is None:
            return NotImplemented
        if c[1] < 0:
            if (o < 0):
                raise ValueError("negative shift count")
            c = (c[0], 0, c[2], c[3])
        if c[2] >= CUR.W:
            raise EngineLimit("shift count up to %d" % c[2])
        cands = (self.lo << c[1], self.lo << c[2], self.hi << c[1], self.hi << c[2])
        return _mk(self.e << c[0], min(cands), max(cands), self.vs | c[3])

    def __rlshift__(self, o):
        c = _coerce(o)
        if c is None:
            return NotImplemented
        return SInt(c[0], c[1], c[2], c[3]).__lshift__(self) if c[1] != c[2] else _lshift_const(c[1], self)

    def __rshift__(self, o):
        c = _coerce(o)
        if c is None:
            return NotImplemented
        if c[1] < 0:
            if (o < 0):
                raise ValueError("negative shift count")
            c = (c[0], 0, c[2], c[3])
        if c[1] == c[2]:
            k = c[1]
            if k >= CUR.W:
                k = CUR.W - 1
            return _mk(self.e >> _bv(k), self.lo >> k, self.hi >> k, self.vs)
        # symbolic count: clamp to W-1 (arithmetic shift saturates to 0 / -1 like Python)
        cnt = z3.If(z3.UGE(c[0], _bv(CUR.W - 1)), _bv(CUR.W - 1), c[0])
        cands = (self.lo >> c[1], self.lo >> c[2], self.hi >> c[1], self.hi >> c[2])
        return _mk(self.e >> cnt, min(cands), max(cands), self.vs | c[3])

    def __rrshift__(self, o):
        c = _coerce(o)
        if c is None:
            return NotImplemented
        return SInt(c[0], c[1], c[2] if c[2] > c[1] else c[1] + 1, c[3]).__rshift__(self)

    # ---- division (floor semantics); modelled for non-negative dividend / positive divisor
    def _divprep(self, o, swap=False):
        c = _coerce(o)
        if c is None:
            return None
        a = (self.e, self.lo, self.hi, self.vs)
        if swap:
            a, c = c, a
        if c[1] <= 0 <= c[2]:
            # divisor may be zero
            if (SInt(c[0], c[1], c[2], c[3]) == 0) if c[1] != c[2] else True:
                raise ZeroDivisionError("integer division or modulo by zero")
            raise PathAbort("refine divisor sign")  # pragma: no cover
        if a[1] < 0 or c[1] < 0:
            # fall back to concretisation of both operands (exhaustive, capped)
            return ('conc', concretize(_mk(*a[:3], a[3])), concretize(_mk(*c[:3], c[3])))
        return a, c

    def __floordiv__(self, o):
        p = self._divprep(o)
        if p is None:
            return NotImplemented
        if p[0] == 'conc':
            return p[1] // p[2]
        a, c = p
        return _mk(z3.UDiv(a[0], c[0]), a[1] // c[2], a[2] // c[1], a[3] | c[3])

    def __rfloordiv__(self, o):
        p = self._divprep(o, swap=True)
        if p is None:
            return NotImplemented
        if p[0] == 'conc':
            return p[1] // p[2]
        a, c = p
        return _mk(z3.UDiv(a[0], c[0]), a[1] // c[2], a[2] // c[1], a[3] | c[3])

    def __mod__(self, o):
        p = self._divprep(o)
        if p is None:
            return NotImplemented
        if p[0] == 'conc':
            return p[1] % p[2]
        a, c = p
        return _mk(z3.URem(a[0], c[0]), 0, min(a[2], c[2] - 1), a[3] | c[3])

    def __rmod__(self, o):
        p = self._divprep(o, swap=True)
        if p is None:
            return NotImplemented
        if p[0] == 'conc':
            return p[1] % p[2]
        a, c = p
        return _mk(z3.URem(a[0], c[0]), 0, min(a[2], c[2] - 1), a[3] | c[3])

    def __divmod__(self, o):
        return self // o, self % o

    def __truediv__(self, o):
        return concretize(self) / (concretize(o) if type(o) is SInt else o)

    def __rtruediv__(self, o):
        return o / concretize(self)

    def __pow__(self, o, m=None):
        return pow(concretize(self), concretize(o) if type(o) is SInt else o, m)

    def __rpow__(self, o):
        return o ** concretize(self)

    # ---- comparisons
    def __eq__(self, o):
        c = _coerce(o)
        if c is None:
            if type(o) is STime:
                return o.__eq__(self)
            if isinstance(o, float):
                if o != int(o):
                    return False
                c = _coerce(int(o))
            else:
                return False
        if self.hi < c[1] or c[2] < self.lo:
            return False
        return SBool(self.e == c[0], self.vs | c[3])

    def __ne__(self, o):
        r = self.__eq__(o)
        if r is False:
            return True
        if r is True:
            return False
        return ~r

    def _cmp(self, o, op):
        c = _coerce(o)
        if c is None:
            if isinstance(o, float):
                # x < 2.5  <=>  x < 3 ; keep it simple: concretise
                v = concretize(self)
                return {'<': v < o, '<=': v <= o, '>': v > o, '>=': v >= o}[op]
            return NotImplemented
        a_lo, a_hi, b_lo, b_hi = self.lo, self.hi, c[1], c[2]
        vs = self.vs | c[3]
        if op == '<':
            if a_hi < b_lo:
                return True
            if a_lo >= b_hi:
                return False
            return SBool(self.e < c[0], vs)
        if op == '<=':
            if a_hi <= b_lo:
                return True
            if a_lo > b_hi:
                return False
            return SBool(self.e <= c[0], vs)
        if op == '>':
            if a_lo > b_hi:
                return True
            if a_hi <= b_lo:
                return False
            return SBool(self.e > c[0], vs)
        if op == '>=':
            if a_lo >= b_hi:
                return True
            if a_hi < b_lo:
                return False
            return SBool(self.e >= c[0], vs)

    def __lt__(self, o):
        return self._cmp(o, '<')

    def __le__(self, o):
        return self._cmp(o, '<=')

    def __gt__(self, o):
        return self._cmp(o, '>')

    def __ge__(self, o):
        return self._cmp(o, '>=')

    def __bool__(self):
        if self.lo > 0 or self.hi < 0:
            return True
        return CUR.branch(self.e != _bv(0), self.vs)

    # ---- concretising conversions
    def __index__(self):
        return concretize(self)

    __int__ = __index__

    def __hash__(self):
        return hash(concretize(self))

    def __float__(self):
        return float(concretize(self))

    def __round__(self, n=None):
        return self

    def __trunc__(self):
        return self

    def __floor__(self):
        return self

    def __ceil__(self):
        return self

    def bit_length(self):
        return concretize(self).bit_length()

    def to_bytes(self, length=1, byteorder='big', *, signed=False):
        if signed:
            if (self < -(1 << (8 * length - 1))) or (self >= (1 << (8 * length - 1))):
                raise OverflowError("int too big to convert")
        else:
            if self < 0:
                raise OverflowError("can't convert negative int to unsigned")
            if self >= (1 << (8 * length)):
                raise OverflowError("int too big to convert")
        out = [(self >> (8 * i)) & 0xFF for i in range(length)]
        if byteorder == 'big':
            out.reverse()
        elif byteorder != 'little':
            raise ValueError("byteorder must be either 'little' or 'big'")
        return out

    def __repr__(self):
        return '<sym>'

    __str__ = __repr__

    def __format__(self, spec):
        return '<sym>'


def _lshift_const(k, cnt):
    """k << cnt for concrete k and symbolic count cnt"""
    if k == 0:
        return 0
    if cnt.lo < 0:
        if cnt < 0:
            raise ValueError("negative shift count")
    if cnt.hi >= CUR.W:
        raise EngineLimit("shift count up to %d" % cnt.hi)
    cands = (k << max(cnt.lo, 0), k << cnt.hi)
    return _mk(_bv(k) << cnt.e, min(cands), max(cands), cnt.vs)


def concretize(x):
    if type(x) is SInt:
        return CUR.concretize(x)
    if type(x) is SBool:
        return bool(x)
    return x


def sym_from_bytes(seq, byteorder='big', signed=False):
    """int.from_bytes over a sequence that may contain SInt bytes (positional sum)."""
    seq = list(seq)
    if not any(type(b) is SInt for b in seq):
        return int.from_bytes(bytes(seq), byteorder, signed=signed)
    if byteorder == 'big':
        seq = seq[::-1]
    elif byteorder != 'little':
        raise ValueError("byteorder must be either 'little' or 'big'")
    total = 0
    for i, b in enumerate(seq):
        if type(b) is SInt:
            if b.lo < 0 or b.hi > 255:
                if (b < 0) or (b > 255):
                    raise ValueError("bytes must be in range(0, 256)")
        elif not 0 <= b <= 255:
            raise ValueError("bytes must be in range(0, 256)")
        total = total | (b << (8 * i))
    if signed and seq:
        n = 8 * len(seq)
        top = seq[-1]
        neg = (top & 0x80) != 0
        total = sym_ite(neg, total - (1 << n), total)
    return total


class _IntShimMeta(type):
    def __instancecheck__(cls, inst):
        return isinstance(inst, int) or type(inst) is SInt

    def __subclasscheck__(cls, sub):
        return issubclass(sub, int)


class IntShim(metaclass=_IntShimMeta):
    """stands in for the builtin `int` as a module global of the code under test"""

    def __new__(cls, x=0, *a, **k):
        if type(x) is SInt:
            return x
        if type(x) is SBool:
            return x._as_int()
        return int(x, *a, **k)

    @staticmethod
    def from_bytes(bytes, byteorder='big', *, signed=False):
        return sym_from_bytes(bytes, byteorder, signed)


# --------------------------------------------------------------------------- STime
def _q(fr):
    return z3.Q(fr.numerator, fr.denominator)


def _tofrac(o):
    if type(o) is Fraction:
        return o
    if type(o) is int or type(o) is float or type(o) is bool:
        return Fraction(o)
    if isinstance(o, (int, float)):
        return Fraction(o)
    return None


class STime:
    """a time instant or duration in seconds: exact rational (c) or z3 Real term (e)"""
    __slots__ = ('c', 'e', 'vs')

    def __init__(self, c=None, e=None, vs=_EMPTY):
        self.c = c
        self.e = e
        self.vs = vs

    @staticmethod
    def of(o):
        if type(o) is STime:
            return o
        f = _tofrac(o)
        if f is None:
            return None
        return STime(c=f)

    def expr(self):
        return _q(self.c) if self.c is not None else self.e

    def _bin(self, o, fn, zfn):
        o = STime.of(o)
        if o is None:
            return NotImplemented
        if self.c is not None and o.c is not None:
            return STime(c=fn(self.c, o.c))
        e = z3.simplify(zfn(self.expr(), o.expr()))
        if z3.is_rational_value(e):
            return STime(c=Fraction(e.numerator_as_long(), e.denominator_as_long()))
        return STime(e=e, vs=self.vs | o.vs)

    def __add__(self, o):
        return self._bin(o, lambda a, b: a + b, lambda a, b: a + b)

    __radd__ = __add__

    def __sub__(self, o):
        return self._bin(o, lambda a, b: a - b, lambda a, b: a - b)

    def __rsub__(self, o):
        return self._bin(o, lambda a, b: b - a, lambda a, b: b - a)

    def __mul__(self, o):
        f = _tofrac(o)
        if f is None:
            return NotImplemented
        if self.c is not None:
            return STime(c=self.c * f)
        return STime(e=self.e * _q(f), vs=self.vs)

    __rmul__ = __mul__

    def __neg__(self):
        if self.c is not None:
            return STime(c=-self.c)
        return STime(e=-self.e, vs=self.vs)

    def _cmp(self, o, fn, zfn):
        o2 = STime.of(o)
        if o2 is None:
            if type(o) is SInt:
                raise EngineLimit("comparison of time with symbolic int")
            return NotImplemented
        if self.c is not None and o2.c is not None:
            return fn(self.c, o2.c)
        a, b = self.expr(), o2.expr()
        return SBool(zfn(a, b), self.vs | o2.vs, a == b)

    def __lt__(self, o):
        return self._cmp(o, lambda a, b: a < b, lambda a, b: a < b)

    def __le__(self, o):
        return self._cmp(o, lambda a, b: a <= b, lambda a, b: a <= b)

    def __gt__(self, o):
        return self._cmp(o, lambda a, b: a > b, lambda a, b: a > b)

    def __ge__(self, o):
        return self._cmp(o, lambda a, b: a >= b, lambda a, b: a >= b)

    def __eq__(self, o):
        if o is None:
            return False
        r = self._cmp(o, lambda a, b: a == b, lambda a, b: a == b)
        return False if r is NotImplemented else r

    def __ne__(self, o):
        r = self.__eq__(o)
        if r is False:
            return True
        if r is True:
            return False
        return ~r

    def __hash__(self):
        if self.c is not None:
            return hash(self.c)
        raise EngineLimit("hash of a symbolic time")

    def __bool__(self):
        r = (self != 0)
        return bool(r)

    def __float__(self):
        if self.c is not None:
            return float(self.c)
        raise EngineLimit("float() of a symbolic time")

    def __repr__(self):
        if self.c is not None:
            return 't%.6f' % float(self.c)
        return '<symtime>'

    __str__ = __repr__

    def __format__(self, spec):
        return self.__repr__()


def T(x):
    """make a concrete STime"""
    return STime(c=Fraction(x))


def tmin(a, b):
    return a if a <= b else b


def cvc5_check(assumptions, timeout_ms=120000):
    """satisfiability of the conjunction according to cvc5 (SMT-LIB2 text generated by z3) -> 'sat'|'unsat'|'unknown'|None"""
    import cvc5
    s = z3.Solver()
    s.add(*assumptions)
    txt = "(set-logic ALL)\n" + s.to_smt2()
    try:
        tm = cvc5.TermManager()
        slv = cvc5.Solver(tm)
        slv.setOption("tlimit-per", str(timeout_ms))
        p = cvc5.InputParser(slv)
        p.setStringInput(cvc5.InputLanguage.SMT_LIB_2_6, txt, "claim")
        sm = p.getSymbolManager()
        res = None
        while True:
            cmd = p.nextCommand()
            if cmd.isNull():
                break
            out = str(cmd.invoke(slv, sm)).strip()
            if out in ('sat', 'unsat', 'unknown'):
                res = out
        return res
    except Exception as e:      # parse error / API error: inconclusive, never a pass
        return 'error:%s' % (str(e)[:80],)


# --------------------------------------------------------------------------- Explorer
class Violation:
    def __init__(self, oracle, values, choices, info):
        self.oracle = oracle
        self.values = values
        self.choices = choices
        self.info = info
        self.reproduced = None
        self.replay_note = None


class ClaimStat:
    __slots__ = ('reached', 'discharged_unsat', 'trivially_true', 'violated')

    def __init__(self):
        self.reached = 0
        self.discharged_unsat = 0
        self.trivially_true = 0
        self.violated = 0

    def as_dict(self):
        return {'reached': self.reached, 'discharged_unsat': self.discharged_unsat,
                'trivially_true': self.trivially_true, 'violated': self.violated}


class Explorer:
    """depth-first exploration by re-execution.  Also runs harnesses concretely (replay)."""

    def __init__(self, W=40, query_timeout_ms=60000, max_paths=20000, wall_budget=600.0,
                 max_violations=8, concrete=None, conc_cap=4096):
        self.W = W
        self.concrete = concrete is not None
        self.cvalues = (concrete or {}).get('values', {})
        self.cchoices = (concrete or {}).get('choices', {})
        self.query_timeout_ms = query_timeout_ms
        self.max_paths = max_paths
        self.wall_budget = wall_budget
        self.max_violations = max_violations
        self.conc_cap = conc_cap
        self.solver = None
        # statistics
        self.n_sat = self.n_unsat = self.n_unknown = 0
        self.n_cached = 0
        self.cross = False        # re-discharge every claim query with cvc5 (two-solver diff)
        self.n_cross = 0
        self.n_cross_disagree = 0
        self.qcache = {}
        self.solver_time = 0.0
        self.paths_done = 0
        self.paths_aborted = 0
        self.paths_stopped = 0
        self.decisions = 0          # solver-decided branch decisions (both sides examined)
        self.forks = 0
        self.witness_reached = 0
        self.claims = {}
        self.violations = []
        self.cfailed = []           # concrete mode: failed oracle ids
        self.samples = []
        self.notes = []
        # per path
        self.pc = []
        self.pcvs = []
        self.trace = []
        self.prefix = []
        self.pos = 0
        self.vars = {}
        self.varorder = []
        self._names = {}
        self.path_log = None
        self.obs = []

    # ------------------------------------------------------------------ variables
    def _uniq(self, name):
        n = self._names.get(name, 0)
        self._names[name] = n + 1
        return name if n == 0 else '%s#%d' % (name, n)

    def fresh_int(self, name, lo, hi):
        name = self._uniq(name)
        if self.concrete:
            v = int(self.cvalues.get(name, lo))
            if not lo <= v <= hi:
                raise PathAbort("replay value of %s out of range" % name)
            self.vars[name] = v
            return v
        if lo == hi:
            return lo
        if lo >= 0:
            b = max(1, _bl(hi))
            var = z3.BitVec(name, b)
            e = z3.ZeroExt(self.W - b, var) if b < self.W else var
        else:
            b = max(_bl(lo), _bl(hi)) + 1
            var = z3.BitVec(name, b)
            e = z3.SignExt(self.W - b, var) if b < self.W else var
        if b > self.W:
            raise EngineLimit("variable wider than W")
        vs = frozenset((name,))
        self.vars[name] = ('i', var, lo >= 0)
        self.varorder.append(name)
        x = SInt(e, lo, hi, vs)
        full_lo, full_hi = (0, (1 << b) - 1) if lo >= 0 else (-(1 << (b - 1)), (1 << (b - 1)) - 1)
        cs = []
        if lo != full_lo:
            cs.append(e >= _bv(lo))
        if hi != full_hi:
            cs.append(e <= _bv(hi))
        for c in cs:
            self._add(c, vs)
        return x

    def fresh_bool(self, name):
        name = self._uniq(name)
        if self.concrete:
            v = bool(self.cvalues.get(name, False))
            self.vars[name] = v
            return v
        var = z3.Bool(name)
        self.vars[name] = ('b', var, None)
        self.varorder.append(name)
        return SBool(var, frozenset((name,)))

    def fresh_real(self, name, lo, hi):
        """a real in the closed interval [lo, hi]"""
        name = self._uniq(name)
        lo = Fraction(lo)
        hi = Fraction(hi)
        if self.concrete:
            v = self.cvalues.get(name)
            v = lo if v is None else Fraction(v)
            if not lo <= v <= hi:
                raise PathAbort("replay value of %s out of range" % name)
            self.vars[name] = v
            return STime(c=v)
        if lo == hi:
            return STime(c=lo)
        var = z3.Real(name)
        vs = frozenset((name,))
        self.vars[name] = ('r', var, None)
        self.varorder.append(name)
        self._add(var >= _q(lo), vs)
        self._add(var <= _q(hi), vs)
        return STime(e=var, vs=vs)

    # ------------------------------------------------------------------ path condition
    def _add(self, e, vs):
        self.pc.append(e)
        self.pcvs.append(vs)

    def _slice(self, vs):
        """constraints transitively sharing variables with vs"""
        if not vs:
            return []
        want = set(vs)
        n = len(self.pc)
        taken = [False] * n
        out = []
        changed = True
        while changed:
            changed = False
            for i in range(n):
                if not taken[i] and not want.isdisjoint(self.pcvs[i]):
                    taken[i] = True
                    out.append(self.pc[i])
                    if not self.pcvs[i] <= want:
                        want |= self.pcvs[i]
                        changed = True
        return out

    def _check(self, assumptions, need_model=False):
        """satisfiability of the conjunction; results are cached per set of (hash-consed) terms"""
        key = None
        if not need_model:
            key = frozenset(a.get_id() for a in assumptions)
            hit = self.qcache.get(key)
            if hit is not None:
                self.n_cached += 1
                return hit[0]
        t0 = _time.perf_counter()
        r = self.solver.check(*assumptions)
        self.solver_time += _time.perf_counter() - t0
        if r == z3.sat:
            self.n_sat += 1
            res = True
        elif r == z3.unsat:
            self.n_unsat += 1
            res = False
        else:
            self.n_unknown += 1
            raise Inconclusive("solver returned unknown: %s" % self.solver.reason_unknown())
        if key is not None and len(self.qcache) < 400000:
            # keep the terms alive: z3 ast ids are only unique while the term is referenced
            self.qcache[key] = (res, assumptions)
        return res

    def feasible(self, e, vs):
        return self._check(self._slice(vs) + [e])

    # ------------------------------------------------------------------ decisions
    def _next(self, kind):
        if self.pos < len(self.prefix):
            ent = self.prefix[self.pos]
            if ent[0] != kind:
                raise EngineError("divergence on re-execution: expected %s, trace has %r" % (kind, ent))
            self.pos += 1
            self.trace.append(ent)
            return ent
        return None

    def branch(self, e, vs, tie=None):
        if self.concrete:
            raise EngineError("symbolic branch in concrete mode")
        if tie is not None:
            # an exact coincidence of two symbolic instants has measure zero; with the clock frozen
            # during a pass it would make the job loop re-enter at the same instant.  Assumed away
            # whenever it can be avoided (stated in DESIGN 3 and in the evidence).
            ent = self._next('tie')
            if ent is not None:
                if ent[1]:
                    self._add(z3.Not(tie), vs)
            else:
                nt = z3.Not(tie)
                ok = self._check(self._slice(vs) + [nt])
                self.trace.append(('tie', ok))
                self.pos += 1
                if ok:
                    self._add(nt, vs)
        ent = self._next('br')
        if ent is not None:
            d = ent[1]
            self._add(e if d else z3.Not(e), vs)
            return d
        if z3.is_true(e):
            return True
        if z3.is_false(e):
            return False
        sl = self._slice(vs)
        ne = z3.Not(e)
        ft = self._check(sl + [e])
        ff = self._check(sl + [ne])
        if ft and ff:
            self.decisions += 1
            self.forks += 1
            self._push_alt(('br', False))
            d = True
        elif ft:
            d = True
        elif ff:
            d = False
        else:
            raise EngineError("path condition became unsatisfiable")
        self.trace.append(('br', d))
        self.pos += 1
        self._add(e if d else ne, vs)
        return d

    def _push_alt(self, ent):
        self.stack.append(self.trace[:] + [ent])

    def peek(self):
        """the recorded decision that comes next while re-executing a prefix (or None)"""
        if self.concrete:
            return None
        if self.pos < len(self.prefix):
            return self.prefix[self.pos]
        return None

    def recorded_choice(self, tag):
        """decision already recorded for choice point `tag` (re-execution / replay), else None"""
        if self.concrete:
            v = self.cchoices.get(str(tag))
            return None if v is None else int(v)
        ent = self.peek()
        if ent is not None and ent[0] == 'ch' and ent[1] == tag:
            return ent[2]
        return None

    def choose_begin(self, tag):
        """choice whose alternatives are only known after alternative 0 has been executed.
        Returns (decision, mark); mark is None when the decision was replayed."""
        if self.concrete:
            d = int(self.cchoices.get(str(tag), 0))
            self.trace.append(("ch", tag, d))
            return d, None
        ent = self._next("ch")
        if ent is not None:
            if ent[1] != tag:
                raise EngineError("divergence on re-execution: choice tag %r vs %r" % (tag, ent[1]))
            return ent[2], None
        mark = len(self.trace)
        self.trace.append(("ch", tag, 0))
        self.pos += 1
        return 0, mark

    def choose_alts(self, mark, tag, n):
        """register alternatives 1..n-1 of the fresh choice recorded at `mark`"""
        self.forks += n - 1
        for d in range(n - 1, 0, -1):
            self.stack.append(self.trace[:mark] + [("ch", tag, d)])

    def choose(self, tag, n):
        """enumerated nondeterministic choice 0..n-1 (schedule / environment)"""
        if n <= 1:
            return 0
        if self.concrete:
            d = int(self.cchoices.get(str(tag), 0))
            self.trace.append(('ch', tag, d))
            return d
        ent = self._next('ch')
        if ent is not None:
            if ent[1] != tag:
                raise EngineError("divergence on re-execution: choice tag %r vs %r" % (tag, ent[1]))
            return ent[2]
        self.forks += n - 1
        for d in range(n - 1, 0, -1):
            self._push_alt(('ch', tag, d))
        self.trace.append(('ch', tag, 0))
        self.pos += 1
        return 0

    def min_value(self, x):
        ent = self._next('min')
        if ent is not None:
            return ent[1]
        sl = self._slice(x.vs)
        lo, hi = x.lo, x.hi
        # find some feasible value first
        if not self._check(sl, need_model=True):
            raise EngineError("path condition unsatisfiable in min_value")
        m = self.solver.model()
        v0 = m.eval(x.e, model_completion=True).as_signed_long()
        hi = min(hi, v0)
        while lo < hi:
            mid = (lo + hi) // 2
            if self._check(sl + [x.e <= _bv(mid)]):
                hi = mid
            else:
                lo = mid + 1
        self.trace.append(('min', lo))
        self.pos += 1
        return lo

    def concretize(self, x):
        n = 0
        while True:
            v = self.min_value(x)
            if self.branch(x.e == _bv(v), x.vs):
                return v
            n += 1
            if n > self.conc_cap:
                raise EngineLimit("concretisation of a value with more than %d alternatives" % self.conc_cap)

    # ------------------------------------------------------------------ harness API
    def assume(self, cond):
        if type(cond) is SBool:
            if self.concrete:
                raise EngineError("symbolic assume in concrete mode")
            ent = self._next('as')
            if ent is None:
                if not self.feasible(cond.e, cond.vs):
                    raise PathAbort("assumption infeasible")
                self.trace.append(('as',))
                self.pos += 1
            self._add(cond.e, cond.vs)
        elif not cond:
            raise PathAbort("assumption false")

    def claim(self, oracle, cond, info=None):
        st = self.claims.get(oracle)
        if st is None:
            st = self.claims[oracle] = ClaimStat()
        st.reached += 1
        if self.concrete:
            ok = bool(cond)
            if not ok:
                st.violated += 1
                self.cfailed.append((oracle, info))
            return ok
        if type(cond) is not SBool:
            if cond:
                st.trivially_true += 1
                return True
            st.violated += 1
            self._violation(oracle, None, _EMPTY, info)
            raise PathStop(oracle)
        ne = z3.Not(cond.e)
        q = self._slice(cond.vs) + [ne]
        res = self._check(q)
        if self.cross:
            other = cvc5_check(q)
            self.n_cross += 1
            if other is None or other != ('sat' if res else 'unsat'):
                self.n_cross_disagree += 1
                raise Inconclusive("z3 says %s, cvc5 says %s on claim %s" % ('sat' if res else 'unsat', other, oracle))
        if not res:
            st.discharged_unsat += 1
            return True
        st.violated += 1
        self._violation(oracle, ne, cond.vs, info)
        # continue the path on the values for which the claim holds, if any
        if self.feasible(cond.e, cond.vs):
            self._add(cond.e, cond.vs)
            return False
        raise PathStop(oracle)

    def _violation(self, oracle, ne, vs, info):
        full = list(self.pc) + ([ne] if ne is not None else [])
        if not self._check(full, need_model=True):
            raise EngineError("sliced query sat but full path condition unsat")
        m = self.solver.model()
        values = self.model_values(m)
        choices = {str(t[1]): t[2] for t in self.trace if t[0] == 'ch'}
        if callable(info):
            info = info(m)
        self.violations.append(Violation(oracle, values, choices, info))

    def model_values(self, m):
        values = {}
        for name in self.varorder:
            kind, var, unsigned = self.vars[name]
            val = m.eval(var, model_completion=True)
            if kind == 'i':
                values[name] = val.as_long() if unsigned else val.as_signed_long()
            elif kind == 'b':
                values[name] = bool(z3.is_true(val))
            else:
                values[name] = str(Fraction(val.numerator_as_long(), val.denominator_as_long()))
        return values

    def witness(self):
        self.witness_reached += 1

    def observe(self, label, obj):
        """record an observable (bus frame, callback arguments, return value) of this path; used
        to cross-validate symbolic paths against a concrete run of the real code"""
        self.obs.append((label, obj))

    def eval_obs(self, values):
        def ev(o):
            if type(o) in (list, tuple, bytearray):
                return [ev(x) for x in o]
            if type(o) is dict:
                return {str(k): ev(v) for k, v in o.items()}
            r = self.eval_in(values, o)
            if type(r) is Fraction:
                return str(r)
            if r is None or type(r) in (int, str, bool, float):
                return r
            return repr(r)
        return [[l, ev(o)] for l, o in self.obs]

    def note(self, s):
        if s not in self.notes and len(self.notes) < 50:
            self.notes.append(s)

    def sample(self, obj):
        if len(self.samples) < 3:
            self.samples.append(obj)

    def path_model(self):
        """some model of the current path condition (for samples / cross validation)"""
        if self.concrete:
            return dict(self.vars)
        if not self._check(list(self.pc), need_model=True):
            raise EngineError("path condition unsatisfiable at path end")
        return self.model_values(self.solver.model())

    def eval_in(self, values, x):
        """value of proxy x under a values dict produced by model_values (for trace validation)"""
        if type(x) is SInt or type(x) is SBool or (type(x) is STime and x.c is None):
            subs = []
            for name in x.vs:
                kind, var, unsigned = self.vars[name]
                v = values[name]
                if kind == 'i':
                    subs.append((var, z3.BitVecVal(v, var.size())))
                elif kind == 'b':
                    subs.append((var, z3.BoolVal(v)))
                else:
                    subs.append((var, _q(Fraction(v))))
            r = z3.simplify(z3.substitute(x.e, *subs))
            if type(x) is SInt:
                return r.as_signed_long()
            if type(x) is SBool:
                return bool(z3.is_true(r))
            return Fraction(r.numerator_as_long(), r.denominator_as_long())
        if type(x) is STime:
            return x.c
        return x

    # ------------------------------------------------------------------ driver
    def _reset_path(self, prefix):
        self.pc = []
        self.pcvs = []
        self.trace = []
        self.prefix = prefix
        self.pos = 0
        self.vars = {}
        self.varorder = []
        self._names = {}
        self.obs = []

    def run_concrete(self, harness):
        """one concrete execution (replay); returns list of failed oracle ids"""
        global CUR
        prev = CUR
        CUR = self
        self._reset_path([])
        try:
            harness(self)
            self.paths_done += 1
        except PathAbort as e:
            self.paths_aborted += 1
            self.notes.append("replay aborted: %s" % e)
        except PathStop:
            pass
        finally:
            CUR = prev
        return self.cfailed

    def explore(self, harness, on_path_end=None, after_path=None):
        """exhaustive DFS; returns status string: 'ok' | 'inconclusive:<why>'"""
        global CUR
        prev = CUR
        CUR = self
        self.solver = z3.Solver()
        self.solver.set('timeout', self.query_timeout_ms)
        self.stack = [[]]
        t0 = _time.perf_counter()
        status = 'ok'
        try:
            while self.stack:
                if self.paths_done + self.paths_aborted + self.paths_stopped >= self.max_paths:
                    status = 'inconclusive:path budget %d exhausted' % self.max_paths
                    break
                if _time.perf_counter() - t0 > self.wall_budget:
                    status = 'inconclusive:wall budget %.0fs exhausted' % self.wall_budget
                    break
                if len(self.violations) >= self.max_violations:
                    status = 'stopped:violation cap reached'
                    break
                prefix = self.stack.pop()
                self._reset_path(prefix)
                nviol = len(self.violations)
                try:
                    harness(self)
                    if self.pos < len(self.prefix):
                        raise EngineError("re-execution ended before its decision prefix was consumed")
                    self.paths_done += 1
                    if on_path_end is not None:
                        on_path_end(self)
                except PathAbort:
                    self.paths_aborted += 1
                except PathStop:
                    self.paths_stopped += 1
                except Inconclusive as e:
                    status = 'inconclusive:%s' % e
                    break
                except EngineLimit as e:
                    status = 'inconclusive:engine limit: %s' % e
                    break
                if after_path is not None and len(self.violations) > nviol:
                    after_path(self, self.violations[nviol:])
        finally:
            CUR = prev
        self.wall = _time.perf_counter() - t0
        return status

"""world -- single-threaded virtual-time environment for the real j1939 stack.

Stubs (each one is an assumption of every check that uses the world):
  time.time()            -> World.now (frozen while a handler / job pass runs)
  threading.Thread       -> FakeThread (target is run by the scheduler, one loop pass at a time)
  queue.Queue (ECU)      -> WakeQueue  (get() parks the job thread by unwinding with _Park)
  queue.Queue (DM14)     -> BlockingQueue (get() runs the scheduler nested until item / timeout)
  CAN bus                -> Bus (FIFO per receiver, optional loss / silence / re-entrant delivery)
  builtin int            -> IntShim in name/Dm14Query/Dm14Server/memory_access (from_bytes on proxies)
"""
import queue as _realqueue
import sys
import threading as _realthreading
from fractions import Fraction

from . import symx
from .symx import STime, T, EngineSignal, EngineError, PathAbort, is_sym

CURW = None  # the active world


class _Park(EngineSignal):
    def __init__(self, timeout):
        self.timeout = timeout


class BusySpin(EngineSignal):
    pass


# --------------------------------------------------------------------------- watchdog for handlers that never return
class HandlerHang(BaseException):
    """a frame handler / job pass of the code under test used more than HANG_CPU_S seconds of CPU time: it does not return
    (BaseException: the code under test catches Exception in several places)"""


HANG_CPU_S = 120.0
_wd = {'depth': 0}


def _on_vtalrm(sig, frm):
    raise HandlerHang()


def _wd_enter():
    import signal
    _wd['depth'] += 1
    if _wd['depth'] == 1:
        try:
            signal.signal(signal.SIGVTALRM, _on_vtalrm)
            signal.setitimer(signal.ITIMER_VIRTUAL, HANG_CPU_S)
        except ValueError:        # not the main thread: no watchdog
            pass


def _wd_exit():
    import signal
    _wd['depth'] -= 1
    if _wd['depth'] == 0:
        try:
            signal.setitimer(signal.ITIMER_VIRTUAL, 0)
        except ValueError:
            pass


# --------------------------------------------------------------------------- module stubs
class _TimeMod:
    @staticmethod
    def time():
        w = CURW
        w.time_calls += 1
        if w.time_calls > w.spin_limit:
            raise BusySpin()
        if w.busy_node is not None:
            return w.now + w.busy_node.busy       # tx_time model: the running job pass has spent `busy` in send calls
        return w.now

    @staticmethod
    def sleep(t):
        CURW.run(until=CURW.now + t)

    @staticmethod
    def monotonic():
        return _TimeMod.time()


class FakeThread:
    def __init__(self, group=None, target=None, name=None, args=(), kwargs=None, daemon=None):
        self.target = target
        self.name = name
        self.daemon = daemon
        self.node = CURW._ctor_node
        self.started = False

    def start(self):
        self.started = True
        if self.node is not None:
            self.node.attach_thread(self)

    def join(self, timeout=None):
        return None

    def is_alive(self):
        return self.started and self.node is not None and self.node.job_alive()


class _ThreadingMod:
    Thread = FakeThread
    Event = _realthreading.Event
    Lock = _realthreading.Lock
    RLock = _realthreading.RLock
    current_thread = staticmethod(_realthreading.current_thread)


class WakeQueue:
    """the ECU's wake-up queue.  get() either consumes a pending wake-up or parks."""

    def __init__(self, maxsize=0):
        self.items = []
        self.node = CURW._ctor_node
        if self.node is not None:
            self.node.wakeq = self

    def put(self, item, block=True, timeout=None):
        self.items.append(item)
        if self.node is not None:
            self.node.on_wake()

    def get(self, block=True, timeout=None):
        if self.items:
            return self.items.pop(0)
        if not block:
            raise _realqueue.Empty
        raise _Park(timeout)

    def qsize(self):
        return len(self.items)

    def empty(self):
        return not self.items


class _EcuQueueMod:
    Queue = WakeQueue
    Empty = _realqueue.Empty
    Full = _realqueue.Full


class BlockingQueue:
    """queue used by the DM14 client/server for blocking hand-over to the application thread"""

    def __init__(self, maxsize=0):
        self.items = []

    def put(self, item, block=True, timeout=None):
        self.items.append(item)

    def get(self, block=True, timeout=None):
        if self.items:
            return self.items.pop(0)
        if not block:
            raise _realqueue.Empty
        w = CURW
        if timeout is None:
            w.run(stop=lambda: bool(self.items))
            if not self.items:
                raise EngineError("blocking get without timeout would never return")
        else:
            w.run(until=w.now + timeout, stop=lambda: bool(self.items))
        if self.items:
            return self.items.pop(0)
        raise _realqueue.Empty

    def qsize(self):
        return len(self.items)

    def empty(self):
        return not self.items


class _DmQueueMod:
    Queue = BlockingQueue
    Empty = _realqueue.Empty
    Full = _realqueue.Full


_installed = False
_saved = []


def install():
    """patch the import-level names of the j1939 modules (idempotent)"""
    global _installed
    if _installed:
        return
    import logging
    import j1939  # noqa: F401  (from /repo)
    logging.disable(logging.CRITICAL)
    m = sys.modules
    patches = [
        ('j1939.electronic_control_unit', 'time', _TimeMod),
        ('j1939.electronic_control_unit', 'threading', _ThreadingMod),
        ('j1939.electronic_control_unit', 'queue', _EcuQueueMod),
        ('j1939.j1939_21', 'time', _TimeMod),
        ('j1939.j1939_22', 'time', _TimeMod),
        ('j1939.Dm14Query', 'queue', _DmQueueMod),
        ('j1939.Dm14Server', 'queue', _DmQueueMod),
        ('j1939.name', 'int', symx.IntShim),
        ('j1939.Dm14Query', 'int', symx.IntShim),
        ('j1939.Dm14Server', 'int', symx.IntShim),
        ('j1939.memory_access', 'int', symx.IntShim),
    ]
    for modname, attr, val in patches:
        mod = m[modname]
        _saved.append((mod, attr, mod.__dict__.get(attr, _saved)))
        setattr(mod, attr, val)
    _installed = True


def uninstall():
    global _installed
    for mod, attr, old in reversed(_saved):
        if old is _saved:
            delattr(mod, attr)
        else:
            setattr(mod, attr, old)
    del _saved[:]
    _installed = False


# --------------------------------------------------------------------------- fingerprint
def _fp(o, seen, depth=0):
    t = type(o)
    if t is int or t is str or t is bool or o is None or t is float:
        return o
    if t is symx.SInt or t is symx.SBool:
        return ('z', o.e.get_id())
    if t is STime:
        return ('t', o.c) if o.c is not None else ('tz', o.e.get_id())
    if t is Fraction:
        return o
    i = id(o)
    if i in seen or depth > 8:
        return ('ref', i)
    if t is dict:
        seen.add(i)
        return ('d',) + tuple((k if type(k) in (int, str) else id(k), _fp(v, seen, depth + 1)) for k, v in o.items())
    if t is list or t is tuple or t is bytearray:
        seen.add(i)
        if len(o) > 24:
            return ('L', len(o)) + tuple(_fp(x, seen, depth + 1) for x in o[:4]) + tuple(_fp(x, seen, depth + 1) for x in o[-4:])
        return ('l',) + tuple(_fp(x, seen, depth + 1) for x in o)
    mod = getattr(t, '__module__', '') or ''
    if mod.startswith('j1939') and hasattr(o, '__dict__'):
        seen.add(i)
        return ('o', t.__name__) + tuple((k, _fp(v, seen, depth + 1)) for k, v in o.__dict__.items())
    return ('id', i)


def fingerprint(ecu):
    return hash(_fp(ecu, set()))


def _norm(o, seen, depth=0):
    """structural image of a protocol object for the return-to-fresh comparison: callables, threads, locks and
    queues are not state of the protocol and are skipped; proxies are compared by term identity"""
    t = type(o)
    if t is int or t is str or t is bool or o is None or t is float or t is Fraction:
        return o
    if t is symx.SInt or t is symx.SBool:
        return ('z', o.e.get_id())
    if t is STime:
        return ('t', o.c) if o.c is not None else ('tz', o.e.get_id())
    if callable(o):
        return 'callable'
    i = id(o)
    if i in seen or depth > 8:
        return 'ref'
    if t is dict:
        seen.add(i)
        return ('d',) + tuple((k if type(k) in (int, str) else 'k', _norm(v, seen, depth + 1)) for k, v in o.items())
    if t is list or t is tuple or t is bytearray:
        seen.add(i)
        return ('l',) + tuple(_norm(x, seen, depth + 1) for x in o)
    mod = getattr(t, '__module__', '') or ''
    if mod.startswith('j1939') and hasattr(o, '__dict__'):
        seen.add(i)
        return ('o', t.__name__) + tuple((k, _norm(v, seen, depth + 1)) for k, v in sorted(o.__dict__.items()) if k not in ('_ecu',))
    return 'opaque:' + t.__name__


def protocol_state(ecu):
    """the data link layer object (session tables, pools, configuration) of an ECU, normalised"""
    return _norm(ecu.j1939_dll, set())


# --------------------------------------------------------------------------- nodes
class Node:
    def __init__(self, world, name, dll='j1939-21', **kw):
        import j1939
        self.world = world
        self.name = name
        self.idx = len(world.nodes)
        self.dll = dll
        self.inbox = []            # interleave mode: frames waiting for delivery
        self.rx_count = 0
        self.thread = None
        self.wakeq = None
        self.running = False       # job pass currently executing
        self.wake_pending = False  # a wake-up was requested while parked / not yet started
        self.parked_until = None   # absolute deadline of the current park (STime) or None
        self.job_due = None        # timed mode: instant at which the job thread runs next
        self.dead = None           # exception that ended the job thread
        self.spin = False
        self.ended = False
        self.passes = 0
        self.last_park_timeout = None
        self.deferred = False
        self.rx_pending_mark = 0
        self.notify_errors = []
        self.listener_escapes = []  # exceptions that escaped MessageListener.on_message_received
        self.silent_from = None    # frames sent with per-node index >= this are lost
        self.sent = 0
        self.held = False          # C08: job pass suspended by the line hook
        self.hung = None           # a frame handler of this node did not return (watchdog)
        self.busy = Fraction(0)    # tx_time model: time the running job pass has spent in send calls
        self.busy_until = None     # tx_time model: instant at which the last job pass returned to its wait
        self.cas = []
        world.nodes.append(self)
        world._ctor_node = self
        try:
            self.ecu = j1939.ElectronicControlUnit(data_link_layer=dll, send_message=self._send, **kw)
        finally:
            world._ctor_node = None

    # ---- construction helpers
    def add_ca(self, addr, name=None, bypass=True):
        import j1939
        if name is None:
            name = j1939.Name(arbitrary_address_capable=0, identity_number=self.idx * 16 + len(self.cas) + 1)
        ca = j1939.ControllerApplication(name, addr, bypass_address_claim=bypass)
        self.ecu.add_ca(controller_application=ca)
        self.cas.append(ca)
        return ca

    # ---- send hook
    def _send(self, can_id, extended_id, data, fd_format=False):
        w = self.world
        w.bus_send(self, can_id, extended_id, data, fd_format)
        if w.tx_time is not None and w.busy_node is self:
            # the send call of the job thread returns when the frame is on the bus: the pass takes time
            self.busy = self.busy + w.tx_time

    # ---- job thread model
    def attach_thread(self, th):
        self.thread = th
        self.wake_pending = True
        w = self.world
        if w.mode == 'timed':
            self.job_due = w.now + w.draw_eps(self)

    def job_alive(self):
        return self.dead is None and not self.spin and not self.ended

    def on_wake(self):
        if self.running or not self.job_alive():
            return
        w = self.world
        if self.wake_pending and (w.mode != 'timed' or self.job_due is not None):
            # already woken by an earlier put: that one decides when the thread runs; this item only
            # makes the loop iterate once more (it stays in the queue)
            return
        self.wake_pending = True
        if w.mode == 'timed':
            cand = w.now + w.draw_eps(self)
            if self.busy_until is not None and bool(cand < self.busy_until):
                cand = self.busy_until + w.draw_eps(self)      # tx_time model: the previous pass is still running
            if self.job_due is None or cand < self.job_due:
                self.job_due = cand

    def job_enabled(self):
        """interleave mode: the job thread may run now"""
        if self.thread is None or not self.job_alive() or self.running or self.held:
            return False
        if self.wake_pending:
            return True
        return self.parked_until is not None and self.parked_until < self.world.now

    def run_job(self):
        """run the job thread until it parks again (one or more loop passes)"""
        w = self.world
        self.running = True
        self.wake_pending = False
        self.job_due = None
        w.time_calls = 0
        self.passes += 1
        self.busy = Fraction(0)
        prev_busy_node = w.busy_node
        if w.tx_time is not None and w.mode == 'timed':
            w.busy_node = self
        try:
            self.thread.target()
            self.ended = True
        except _Park as p:
            self.last_park_timeout = p.timeout
            self.parked_until = w.now + self.busy + p.timeout
            if w.busy_node is self:
                self.busy_until = w.now + self.busy
            if w.mode == 'timed':
                self.job_due = self.parked_until + w.draw_eps(self)
        except BusySpin:
            self.spin = True
            w.log_event('busy-spin', self.name)
        except Exception as e:  # the job thread died
            self.dead = e
            w.log_event('job-thread-died', self.name, repr(e))
        finally:
            self.running = False
            w.time_calls = 0
            w.busy_node = prev_busy_node
        # wake-ups put while the pass was running were consumed by get() inside the loop

    def deliver(self, frame):
        w = self.world
        self.rx_count += 1
        w.time_calls = 0
        data = frame['data']
        if w.ex.concrete or not any(is_sym(b) for b in data):
            data = bytearray(data)
        else:
            data = list(data)
        if frame.get('via_listener'):
            # through the real bus listener, as python-can's Notifier thread would: an exception that escapes
            # on_message_received ends that thread, i.e. the stack stops receiving for good
            import can
            msg = can.Message(arbitration_id=0, data=bytearray(min(len(data), 64)), is_extended_id=frame['ext'],
                              is_fd=frame['fd'], timestamp=0.0, check=False)
            msg.arbitration_id = frame['id']
            msg.data = data             # may hold proxies (the constructor would force them into a bytearray)
            msg.timestamp = w.now
            _wd_enter()
            try:
                self.ecu._listeners[0].on_message_received(msg)
            except HandlerHang:
                self.hung = 'frame handler (bus listener) did not return within %g s of CPU time' % HANG_CPU_S
                w.log_event('handler-hang', self.name)
            except Exception as e:
                self.listener_escapes.append(e)
                w.log_event('exception-escaped-the-bus-listener', self.name, repr(e))
            finally:
                _wd_exit()
            return
        if frame['ext'] is False:
            return True      # MessageListener.on_message_received drops frames with an 11-bit identifier
        _wd_enter()
        try:
            self.ecu.notify(frame['id'], data, w.now)
        except HandlerHang:
            self.hung = 'frame handler (notify) did not return within %g s of CPU time' % HANG_CPU_S
            w.log_event('handler-hang', self.name)
        except Exception as e:
            # python-can's notifier thread: MessageListener.on_message_received logs and continues
            self.notify_errors.append(e)
            w.log_event('notify-exception', self.name, repr(e))
        finally:
            _wd_exit()


# --------------------------------------------------------------------------- world
class World:
    def __init__(self, ex, mode='interleave', eps=None, eps_range=None, latency=None, reentrant=None,
                 spin_limit=5000, start=0):
        """mode 'interleave': explicit interleaving choices, time frozen in the micro phase, concrete
                 macro times (eps = concrete scheduling latency).
           mode 'timed': every frame delivery and job wake-up is an event with a (possibly symbolic)
                 instant; eps_range=(lo,hi) draws a fresh symbolic scheduling latency per wake-up,
                 latency = callable(world, sender, receiver, frame_index) -> STime delay.
           reentrant: None | 'all' | int k (only the k-th bus frame is delivered re-entrantly)."""
        global CURW
        install()
        CURW = self
        self.ex = ex
        self.mode = mode
        self.now = T(start)
        self.tx_time = None        # timed mode, optional: every send call of a job pass takes this long (see DESIGN 10.2)
        self.busy_node = None
        self.eps = T('1/10000') if eps is None else STime.of(eps)
        self.eps_range = eps_range
        self.latency = latency
        self.reentrant = reentrant
        self.spin_limit = spin_limit
        self.time_calls = 0
        self.nodes = []
        self._ctor_node = None
        self.events = []       # [time, seq, fn, label]
        self._seq = 0
        self.log = []          # bus log: dicts
        self.evlog = []        # other events
        self.cb_count = 0
        self.cp = 0            # micro choice-point counter
        self.drop_index = None  # bus frame index that is lost
        self.frame_hooks = []  # callables(frame) run after a frame was put on the bus
        self.n_eps = 0
        self.last_rx = {}      # timed mode: last delivery instant per receiver (FIFO)
        self.depth = 0
        self.naive = False     # True: naive scheduler without any reduction (validation of the reductions only)
        self.app_now = []      # interleave mode: application actions to run at the next scheduling point
        self.eps_only = None   # names of the nodes whose scheduling latency is symbolic (None: all)
        self.branching = True  # False: canonical schedule (job pass first), no interleaving choices

    # ---- helpers
    def add_node(self, name, dll='j1939-21', **kw):
        return Node(self, name, dll, **kw)

    def draw_eps(self, node):
        if self.eps_range is None or (self.eps_only is not None and node.name not in self.eps_only):
            return self.eps
        self.n_eps += 1
        return self.ex.fresh_real('eps_%s_%d' % (node.name, self.n_eps), self.eps_range[0], self.eps_range[1])

    def log_event(self, *a):
        self.evlog.append((self.now,) + a)

    def at(self, t, fn, label='app'):
        """schedule an application action at absolute instant t"""
        self._seq += 1
        self.events.append([STime.of(t), self._seq, fn, label])

    def after(self, dt, fn, label='app'):
        self.at(self.now + dt, fn, label)

    def callback_fired(self):
        self.cb_count += 1

    # ---- bus
    def bus_send(self, sender, can_id, extended_id, data, fd_format):
        idx = len(self.log)
        t_send = self.now + sender.busy if self.busy_node is sender else self.now
        frame = {'i': idx, 't': t_send, 'src': sender.name, 'id': can_id, 'ext': extended_id,
                 'data': list(data), 'fd': bool(fd_format), 'lost': False, 'nidx': sender.sent}
        sender.sent += 1
        self.log.append(frame)
        if self.drop_index is not None:
            r = (self.drop_index == idx)
            if bool(r):
                frame['lost'] = True
        if sender.silent_from is not None and not frame['lost']:
            r = (sender.silent_from <= frame['nidx'])
            if bool(r):
                frame['lost'] = True
        if not frame['lost']:
            re = self.reentrant
            reent = (re == 'all') or (re is not None and re != 'all' and bool(re == idx))
            for n in self.nodes:
                if n is sender:
                    continue
                if reent and not n.inbox and not any(ev[3] == 'rx:' + n.name for ev in self.events):
                    # handled inside the sender's send call; only possible when every earlier frame
                    # has already been delivered to this receiver (bus order per receiver)
                    n.deliver(frame)
                elif self.mode == 'interleave':
                    n.inbox.append(frame)
                else:
                    lat = self.latency(self, sender, n, idx) if self.latency is not None else T('1/1000')
                    t = t_send + lat
                    last = self.last_rx.get(n.name)
                    if last is not None and t < last:
                        t = last
                    self.last_rx[n.name] = t
                    self._seq += 1
                    self.events.append([t, self._seq, (lambda n=n, f=frame: n.deliver(f)), 'rx:' + n.name])
        for h in list(self.frame_hooks):
            h(frame)

    def inject(self, node, can_id, data, ext=True, fd=False, via_listener=False):
        """a frame from outside (scripted peer) delivered to one node right now"""
        frame = {'i': -1, 't': self.now, 'src': 'ext', 'id': can_id, 'ext': ext, 'data': list(data),
                 'fd': fd, 'lost': False, 'via_listener': via_listener}
        node.deliver(frame)

    # ---- scheduler
    def _job_probe(self, n):
        """run the pending job pass; True if it did anything observable"""
        before = (len(self.log), self.cb_count, len(self.evlog), fingerprint(n.ecu))
        n.run_job()
        after = (len(self.log), self.cb_count, len(self.evlog), fingerprint(n.ecu))
        return before != after or not n.job_alive()

    def _others_enabled(self, n):
        for m in self.nodes:
            if m is not n and (m.inbox or m.job_enabled()):
                return True
        return False

    def micro_step(self):
        ex = self.ex
        if self.app_now:
            # an application action requested for "right now" (before anything else that is enabled)
            fn = self.app_now.pop(0)
            self.time_calls = 0
            fn()
            return True
        if self.naive:
            return self._micro_step_naive()
        order = self.nodes
        if not self.branching and len(order) > 1:
            # canonical schedule: serve the nodes round-robin (a fixed priority order would starve the last one)
            self.rr = (getattr(self, 'rr', -1) + 1) % len(order)
            order = order[self.rr:] + order[:self.rr]
        for n in order:
            has_in = bool(n.inbox)
            has_job = n.job_enabled()
            if not has_in and not has_job:
                continue
            if n.deferred:
                if n.rx_pending_mark == len(n.inbox) + n.rx_count:
                    # nothing new arrived for this node since the deferral
                    continue
                n.deferred = False
            if not has_job:
                n.deliver(n.inbox.pop(0))
                return True
            tag = 'mc%d' % self.cp
            self.cp += 1
            others = (not has_in) and self._others_enabled(n)
            nalt = 1 + (1 if has_in else 0) + (1 if others else 0)
            if nalt == 1 or not self.branching:
                n.run_job()
                return True
            d, mark = ex.choose_begin(tag)
            if mark is not None:
                # fresh: run the pass tentatively; alternatives only matter if it did something
                changed = self._job_probe(n)
                if changed:
                    ex.choose_alts(mark, tag, nalt)
                return True
            if d == 0:
                n.run_job()
            elif has_in:
                n.deliver(n.inbox.pop(0))
            else:
                n.deferred = True
                n.rx_pending_mark = len(n.inbox) + n.rx_count
                continue
            return True
        # nothing enabled (or only deferred nodes left)
        for n in self.nodes:
            if n.deferred and n.job_enabled():
                raise PathAbort("deferral without effect (equivalent to running the pass first)")
        return False

    def _micro_step_naive(self):
        """no reduction at all: every enabled event of every node may go next (used only to validate the
        reductions on shapes small enough for both schedulers to finish)"""
        evs = []
        for n in self.nodes:
            if n.inbox:
                evs.append(('rx', n))
            if n.job_enabled():
                evs.append(('job', n))
        if not evs:
            return False
        tag = 'nv%d' % self.cp
        self.cp += 1
        kind, n = evs[self.ex.choose(tag, len(evs))]
        if kind == 'rx':
            n.deliver(n.inbox.pop(0))
        else:
            n.run_job()
        return True

    def _next_macro(self):
        """interleave mode: earliest parked timeout / app event -> (time, kind, obj)"""
        best = None
        for n in self.nodes:
            if n.thread is not None and n.job_alive() and not n.wake_pending and n.parked_until is not None and not n.held:
                t = n.parked_until + self.eps
                if best is None or t < best[0]:
                    best = (t, 'job', n)
        for ev in self.events:
            if best is None or ev[0] < best[0]:
                best = (ev[0], 'ev', ev)
        return best

    def _next_timed(self):
        best = None
        for n in self.nodes:
            if n.thread is not None and n.job_alive() and n.job_due is not None and not n.held and not n.running:
                if best is None or n.job_due < best[0]:
                    best = (n.job_due, 'job', n)
        for ev in sorted(self.events, key=lambda e: e[1]):
            if best is None or ev[0] < best[0]:
                best = (ev[0], 'ev', ev)
        return best

    def run(self, until=None, stop=None, max_steps=200000):
        """let virtual time pass until `until` (absolute), or until stop() holds, or quiescence"""
        if until is not None:
            until = STime.of(until)
        self.depth += 1
        try:
            steps = 0
            while True:
                steps += 1
                if steps > max_steps:
                    raise EngineError("scheduler step limit")
                if stop is not None and stop():
                    return
                if self.mode == 'interleave':
                    if self.micro_step():
                        continue
                    nxt = self._next_macro()
                else:
                    nxt = self._next_timed()
                if nxt is None:
                    if until is not None and self.now < until:
                        self.now = until
                    return
                t, kind, obj = nxt
                if until is not None and t > until:
                    if self.now < until:
                        self.now = until
                    return
                if self.now < t:
                    self.now = t
                if kind == 'job':
                    if self.mode == 'interleave':
                        obj.wake_pending = True  # becomes a micro event at the new instant
                    else:
                        obj.run_job()
                else:
                    self.events.remove(obj)
                    self.time_calls = 0
                    obj[2]()
        finally:
            self.depth -= 1

    # ---- queries for oracles
    def quiet(self):
        """no frame in flight and no job pass requested"""
        for n in self.nodes:
            if n.inbox or n.wake_pending:
                return False
        return not any(ev[3].startswith('rx:') for ev in self.events)

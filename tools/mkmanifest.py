"""regenerates MANIFEST.json from the table below (run from /verif)"""
import json, os, sys
sys.path.insert(0, '/verif')
CLAIMED = json.load(open('/verif/tools/claimed.json'))
props = [json.loads(l) for l in open('/verif/properties.jsonl')]
checks = []; na = []
for p in props:
    pid = p['id']
    if pid in CLAIMED:
        c = CLAIMED[pid]
        checks.append({
            'property_id': pid,
            'quick_cmd': './vcheck %s quick' % pid,
            'thorough_cmd': './vcheck %s thorough' % pid,
            'evidence_file': 'evidence/%s.json' % pid,
            'replay_cmd_template': './vcheck replay {path}',
            'engine': 'symx',
            'level_claimed': {'category': 'model_checking', 'text': c['text'], 'design_ref': c.get('design_ref', 'DESIGN.md section 5')},
            'level_note': c['note'],
            'technique': c.get('technique', 'bounded symbolic execution of the real Python code (proxy values over z3 bit-vectors/reals, DFS by re-execution); each claim discharged by z3 as pc /\\ not(claim) unsat; counterexamples replayed concretely'),
        })
    else:
        na.append({'property_id': pid, 'reason': 'check not built yet in this round (planned: see DESIGN.md section 5); no claim is made'})
m = {
    'version': 1,
    'setup_cmd': './vcheck --setup',
    'hooks': {'guard': 'J1939_VERIF', 'enable': 'no source hooks are needed: stubs are installed at run time by setting import-level names (time, threading, queue, int) on the imported j1939 modules', 'baseline_off_cmd': 'cd /repo && /venv/bin/python -m pytest -ra -q -p no:cacheprovider --timeout=900 --continue-on-collection-errors', 'source_commits': [], 'add_only': True},
    'engines': [{'name': 'symx', 'path': 'jv/symx.py', 'serves_properties': sorted(CLAIMED), 'kind_free_text': 'proxy-based symbolic execution of the real /repo/j1939 code objects over z3 (bit-vectors for ints, reals for time), depth-first by re-execution, virtual-time environment model jv/world.py, concrete replay of every counterexample'}],
    'checks': checks,
    'not_applicable': na,
    'notes': 'Exit codes: 0 = every path of every harness closed (unsat claims / known findings only); 1 = reproduced violation (VIOLATION line); 2 = inconclusive (solver unknown, engine limit, budget, vacuity or non-reproducing counterexample) - never reported as success.',
}
json.dump(m, open('/verif/MANIFEST.json', 'w'), indent=1)
import jsonschema
sys.path.insert(0, '/verif/.deps')

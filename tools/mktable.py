#!/usr/bin/env python3
"""print the measured quick-tier table (DESIGN 10.3) from evidence/*.json"""
import glob
import json

print('| id | tier | jobs | paths | solver queries | solver s | wall s | claims (distinct) | repo head |')
print('|---|---|---|---|---|---|---|---|---|')
for f in sorted(glob.glob('/verif/evidence/C*.json')):
    e = json.load(open(f))
    c = e['coverage']
    print('| %s | %s | %d | %d | %d | %.0f | %.0f | %d | %s |' % (e['property_id'], e['tier'], len(c['jobs']), c['states'], c['transitions'],
                                                                 c['solver_time_s'], e['wall_s'], len(c['claims']), c['repo_head'][:7]))

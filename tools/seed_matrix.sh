#!/bin/bash
# tools/seed_matrix.sh [tier]  -- run every seeded change against the check of the property it breaks; writes seeded/RESULTS.md
TIER="${1:-quick}"
cd /verif
OUT=seeded/RESULTS.md
echo "# Seeded changes vs checks ($TIER tier, /repo HEAD $(git -C /repo rev-parse --short HEAD))" > $OUT
echo >> $OUT
echo "| seed | property | check result | first failing oracle |" >> $OUT
echo "|---|---|---|---|" >> $OUT
for d in seeded/*/; do
  id=$(basename $d); [ -f $d/patch.diff ] || continue
  prop=$(python3 -c "import json;print(json.load(open('$d/meta.json')).get('detect_with') or json.load(open('$d/meta.json'))['property'])")
  if ! git -C /repo apply --check /verif/$d/patch.diff 2>/dev/null; then echo "| $id | $prop | patch does not apply to the fixed tree | |" >> $OUT; continue; fi
  r=$(tools/seed_run.sh $id $prop $TIER 2>&1)
  rc=$(echo "$r" | head -1 | sed 's/.*exit \([0-9]*\).*/\1/')
  n=$(echo "$r" | head -1 | sed 's/.*VIOLATION lines: //')
  orc=$(echo "$r" | grep -m1 'oracle=' | sed 's/ *oracle=\([^ ]*\) harness=\([^ ]*\).*/\1 (\2)/')
  res="MISSED (exit $rc)"; [ "$rc" = 1 ] && res="detected ($n VIOLATION lines)"
  echo "| $id | $prop | $res | $orc |" >> $OUT
  echo "$id $prop $res"
done

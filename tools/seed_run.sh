#!/bin/bash
# tools/seed_run.sh <seed-id> <property> [tier]
# Runs the check of <property> against the seeded change WITHOUT touching /repo: a scratch git worktree of /repo HEAD
# gets the patch, the check is pointed at it with JV_REPO, evidence and replays go to a scratch directory.
set -u
ID="$1"; PROP="$2"; TIER="${3:-quick}"
cd /verif
WT=$(mktemp -d /tmp/seedrun.XXXXXX); rmdir "$WT"
SCR=$(mktemp -d /tmp/seedout.XXXXXX)
git -C /repo worktree add --detach "$WT" HEAD >/dev/null 2>&1 || { echo "worktree failed"; exit 2; }
trap 'git -C /repo worktree remove --force "$WT" >/dev/null 2>&1; rm -rf "$SCR"' EXIT
git -C "$WT" apply "/verif/seeded/$ID/patch.diff" || { echo "seed $ID vs $PROP $TIER: patch does not apply"; exit 2; }
JV_REPO="$WT" JV_EVIDENCE_DIR="$SCR" JV_REPLAY_DIR="$SCR" ./vcheck "$PROP" "$TIER" > "$SCR/out" 2>&1; RC=$?
grep -c '^VIOLATION' "$SCR/out" | sed "s/^/seed $ID vs $PROP $TIER: exit $RC, VIOLATION lines: /"
grep -E '^(VIOLATION|  oracle|INCONCLUSIVE)' "$SCR/out" | head -6
tail -1 "$SCR/out"

#!/bin/bash
# tools/seed_run.sh <seed-id> <property> [tier]  -- apply seeded/<seed-id>/patch.diff to /repo, run the check, undo.
set -u
ID="$1"; PROP="$2"; TIER="${3:-quick}"
cd /verif
if [ -n "$(git -C /repo status --porcelain -- j1939)" ]; then echo "/repo not clean"; exit 2; fi
git -C /repo apply "/verif/seeded/$ID/patch.diff" || exit 2
cp evidence/$PROP.json /tmp/.ev.$PROP.$$ 2>/dev/null
./vcheck "$PROP" "$TIER" > /tmp/.seedrun.$$ 2>&1; RC=$?
git -C /repo checkout -- j1939
[ -f /tmp/.ev.$PROP.$$ ] && mv /tmp/.ev.$PROP.$$ evidence/$PROP.json
grep -c '^VIOLATION' /tmp/.seedrun.$$ | sed "s/^/seed $ID vs $PROP $TIER: exit $RC, VIOLATION lines: /"
grep -E '^(VIOLATION|  oracle|INCONCLUSIVE)' /tmp/.seedrun.$$ | head -6
tail -1 /tmp/.seedrun.$$
rm -f /tmp/.seedrun.$$

#!/bin/bash
# tools/seed_verify.sh <out-dir with patch.diff demo.py meta.json> <seed-id>
# Confirms a seeded change in a scratch worktree (outside /repo and /verif): the patch applies, the pinned suite
# passes with it, the demonstration fails with it and passes without it.  Then stores it as seeded/<seed-id>/.
set -u
OUT="$1"; ID="$2"
WT=$(mktemp -d /tmp/seedwt.XXXXXX); rmdir "$WT"
git -C /repo worktree add --detach "$WT" HEAD >/dev/null 2>&1 || { echo "worktree failed"; exit 2; }
trap 'git -C /repo worktree remove --force "$WT" >/dev/null 2>&1' EXIT
cd "$WT"
R_ORIG=$(timeout 120 /venv/bin/python "$OUT/demo.py" >/dev/null 2>&1; echo $?)
git apply "$OUT/patch.diff" || { echo "patch does not apply"; exit 2; }
R_MUT=$(timeout 120 /venv/bin/python "$OUT/demo.py" >/dev/null 2>&1; echo $?)
PYT=$(timeout 900 /venv/bin/python -m pytest -q -p no:cacheprovider --timeout=900 2>&1 | tail -1)
echo "demo on original: exit $R_ORIG ; demo on changed: exit $R_MUT ; pytest with change: $PYT"
if [ "$R_ORIG" = 0 ] && [ "$R_MUT" != 0 ] && echo "$PYT" | grep -q "116 passed"; then
  mkdir -p /verif/seeded/$ID
  cp "$OUT/patch.diff" "$OUT/demo.py" /verif/seeded/$ID/
  python3 - "$OUT/meta.json" /verif/seeded/$ID/meta.json "$R_ORIG" "$R_MUT" "$PYT" <<'PY'
import json, sys
m = json.load(open(sys.argv[1]))
m['confirmed'] = {'demo_exit_on_original': int(sys.argv[3]), 'demo_exit_on_changed': int(sys.argv[4]), 'pytest_with_change': sys.argv[5],
                  'how': 'tools/seed_verify.sh in a scratch git worktree of /repo HEAD (removed afterwards)'}
json.dump(m, open(sys.argv[2], 'w'), indent=1)
PY
  echo "CONFIRMED -> /verif/seeded/$ID"
else
  echo "NOT CONFIRMED"; exit 1
fi
